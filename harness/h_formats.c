/* harness `formats`: the text mesh readers/writers, the remaining binary readers and the boundary-condition map reader
   of refine (C08, C09, C20), every call in a forked child (alarm, allocator cap, peak RSS).

   EXT   one of ugrid tri surf fgrid r8.ugrid su2 msh grid   (the file is hf_<pid>.EXT in the cwd)
   FILE  text: tokens  w:<text>  i:<int>  f:<16 hex: a double, written %.17g>  g:<hex text>:<16 hex> (raw text which
               strtod consumes entirely with that value - verified here, else bad-op)  x:<hex text> (raw text)
               n: (newline)  r: (CR LF); tokens on one line are separated by one blank
         binary: one token b:<hex bytes> (b:- = empty file)
   MESH  twod T n NS {-|X Y Z}*NS edg N {a b id}*N tri N {a b c id}*N qua N {a b c d id}*N tet N {4}*N pyr N {5}*N
         pri N {6}*N hex N {8}*N          (NS node slots, `-` = slot removed again; node numbers are slot numbers)
   ops, one output line each:
     imp EXT | FILE          child: the static reader of that format (white box: no boundary orientation)
                             -> ok <dump> | <status> | crash <why> | timeout | bloat
     robust_imp EXT | FILE   child: ref_import_by_extension                    -> returned | crash .. | timeout | bloat
     robust EXT | FILE       child: ref_import_by_extension, then ref_export_by_extension to the same extension (.ugrid for
                             surf / r8.ugrid which have no writer)              -> returned | crash .. | timeout | bloat
     exp EXT MESH            serial build of the REF_GRID, ref_export_by_extension -> ok | FILE (tokens of the text written:
                             i: a token strtol consumes entirely, f: one strtod consumes entirely, else w:; n: per newline)
     rt EXT MESH             the same, then ref_import_by_extension of that file -> ok <dump> | <status>
     scalar EXT N TWOD | FILE  child: a grid of N vertices (global = local, vertex i at (i, 2i, 3i)), ref_part_scalar
                             -> ok LDIM {v*LDIM}*N | <status> | crash .. | timeout | bloat       EXT: rst snap plt sol solb
                             (for plt only `ok LDIM`: the values are placed by a nearest-vertex search)
     hazard_imp EXT | FILE / hazard EXT | FILE / hazard_scalar EXT N TWOD | FILE / hazard_exp EXT MESH
                             = imp / robust / scalar / exp, answered `hazard` when the child crashed, ran into the time limit
                             or touched more than 300 MB, else `clean` (replays of the *_counterexample witnesses)
     mapbc | FILE            child: ref_phys_read_mapbc            -> ok N {id type}*N wall {id}* | <status> | crash ..
     mapbc_token TOK | FILE  child: ref_phys_read_mapbc_token       -> ok N {id type}*N | <status> | crash ..
   <dump> = twod T n NN {x y z}*NN edg N {a b id}*N tri N .. qua N .. tet N .. pyr N .. pri N .. hex N ..   (0-based)
   refine's own diagnostics on stdout go to /dev/null.   argv: [--limit S]
*/
#include "h_proto.h"

#include <errno.h>
#include <signal.h>
#include <sys/resource.h>
#include <sys/time.h>
#include <sys/types.h>
#include <sys/wait.h>
#include <unistd.h>

#include "ref_import.c" /* white box: the static readers */

#include "ref_dict.h"
#include "ref_export.h"
#include "ref_grid.h"
#include "ref_mpi.h"
#include "ref_node.h"
#include "ref_part.h"
#include "ref_phys.h"

#if defined(__SANITIZE_ADDRESS__)
#define H_ASAN 1
const char *__asan_default_options(void);
const char *__asan_default_options(void) {
  /* a malloc above 1 GiB returns NULL instead of reserving it */
  return "max_allocation_size_mb=1024:allocator_may_return_null=1:detect_leaks=0";
}
#else
#define H_ASAN 0
#endif

#define BLOAT_KB (300L * 1024L)
static FILE *out;
static REF_MPI mpi;
static int limit_s = 10;
static char fname[96];

static const char *exts[] = {"ugrid", "tri", "surf", "fgrid", "r8.ugrid", "su2", "msh", "grid"};
#define NEXT 8
static const char *knames[] = {"edg", "tri", "qua", "tet", "pyr", "pri", "hex"};
static const int kper[] = {2, 3, 4, 4, 5, 6, 8};
static const int ktag[] = {1, 1, 1, 0, 0, 0, 0};
#define NK 7
static REF_CELL kcell(REF_GRID g, int k) {
  switch (k) {
    case 0: return ref_grid_edg(g);
    case 1: return ref_grid_tri(g);
    case 2: return ref_grid_qua(g);
    case 3: return ref_grid_tet(g);
    case 4: return ref_grid_pyr(g);
    case 5: return ref_grid_pri(g);
    default: return ref_grid_hex(g);
  }
}
static int ext_id(const char *s) {
  int i;
  for (i = 0; i < NEXT; i++)
    if (0 == strcmp(s, exts[i])) return i;
  return -1;
}

/* growing output buffer */
static char *ob;
static size_t ob_n, ob_cap;
static void ob_reset(void) {
  ob_n = 0;
  if (ob) ob[0] = 0;
}
static void ob_putn(const char *s, size_t l) {
  if (ob_n + l + 1 > ob_cap) {
    ob_cap = 2 * (ob_n + l + 1) + 1024;
    ob = (char *)realloc(ob, ob_cap);
    if (!ob) _exit(7);
  }
  memcpy(ob + ob_n, s, l);
  ob_n += l;
  ob[ob_n] = 0;
}
static void ob_put(const char *s) { ob_putn(s, strlen(s)); }
static void ob_int(long long v) {
  char b[32];
  snprintf(b, sizeof b, " %lld", v);
  ob_put(b);
}
static void ob_bits(unsigned long long u) {
  char b[32];
  if (((u >> 52) & 0x7ff) == 0x7ff && (u & 0xfffffffffffffULL)) { ob_put(" nan"); return; }
  snprintf(b, sizeof b, " %016llx", u);
  ob_put(b);
}
static void ob_dbl(double d) {
  unsigned long long u;
  memcpy(&u, &d, 8);
  ob_bits(u);
}
static int hexval(int c) {
  if (c >= '0' && c <= '9') return c - '0';
  if (c >= 'a' && c <= 'f') return c - 'a' + 10;
  return -1;
}
static unsigned char *unhex(const char *s, size_t *n) {
  size_t l = strlen(s), i;
  unsigned char *p;
  if (0 == strcmp(s, "-")) { *n = 0; return (unsigned char *)calloc(1, 1); }
  if (l % 2) return NULL;
  p = (unsigned char *)malloc(l / 2 + 1);
  for (i = 0; i < l / 2; i++) {
    int a = hexval(s[2 * i]), b = hexval(s[2 * i + 1]);
    if (a < 0 || b < 0) { free(p); return NULL; }
    p[i] = (unsigned char)(16 * a + b);
  }
  p[l / 2] = 0;
  *n = l / 2;
  return p;
}
static unsigned char *slurp(const char *name, size_t *n) {
  FILE *f = fopen(name, "rb");
  long l;
  unsigned char *p;
  if (!f) return NULL;
  fseek(f, 0, SEEK_END);
  l = ftell(f);
  fseek(f, 0, SEEK_SET);
  p = (unsigned char *)malloc((size_t)l + 1);
  if (l && (size_t)l != fread(p, 1, (size_t)l, f)) { fclose(f); free(p); return NULL; }
  fclose(f);
  p[l] = 0;
  *n = (size_t)l;
  return p;
}
static int is_int(const char *s) {
  if (*s == '-') s++;
  if (!*s || strlen(s) > 18) return 0;
  for (; *s; s++)
    if (*s < '0' || *s > '9') return 0;
  return 1;
}
static int is_f(const char *s) {
  size_t i;
  if (16 != strlen(s)) return 0;
  for (i = 0; i < 16; i++)
    if (hexval(s[i]) < 0) return 0;
  return 1;
}
static int in_i32(long long v) { return v >= -2147483647LL - 1 && v <= 2147483647LL; }

/* ---------------------------------------------------------------- FILE tokens -> file */
/* words h_w[k0..h_nw) -> the file `fname`; 0 on success */
static int write_file(int k0) {
  FILE *f;
  int k, bol = 1;
  if (k0 >= h_nw) return 1;
  f = fopen(fname, "wb");
  if (!f) return 1;
  if (k0 + 1 == h_nw && 0 == strncmp(h_w[k0], "b:", 2)) {
    size_t nb = 0;
    unsigned char *b = unhex(h_w[k0] + 2, &nb);
    if (!b) { fclose(f); return 1; }
    if (nb && nb != fwrite(b, 1, nb, f)) { free(b); fclose(f); return 1; }
    free(b);
    fclose(f);
    return 0;
  }
  for (k = k0; k < h_nw; k++) {
    const char *t = h_w[k];
    if (0 == strcmp(t, "n:")) { fputc('\n', f); bol = 1; continue; }
    if (0 == strcmp(t, "r:")) { fputs("\r\n", f); bol = 1; continue; }
    if (!bol) fputc(' ', f);
    bol = 0;
    if (0 == strncmp(t, "w:", 2)) {
      const char *p = t + 2;
      if (!*p) goto bad;
      fputs(p, f);
    } else if (0 == strncmp(t, "i:", 2)) {
      if (!is_int(t + 2)) goto bad;
      fputs(t + 2, f);
    } else if (0 == strncmp(t, "f:", 2)) {
      if (!is_f(t + 2)) goto bad;
      fprintf(f, "%.17g", h_f(t + 2));
    } else if (0 == strncmp(t, "x:", 2) || 0 == strncmp(t, "g:", 2)) {
      char *colon = strchr((char *)t + 2, ':');
      size_t nb = 0, i;
      unsigned char *b;
      if ('g' == t[0]) {
        if (!colon || !is_f(colon + 1)) goto bad;
        *colon = 0;
      } else if (colon) goto bad;
      b = unhex(t + 2, &nb);
      if (!b || 0 == nb) { free(b); goto bad; }
      for (i = 0; i < nb; i++)
        if (b[i] <= ' ' || b[i] > '~') { free(b); goto bad; }
      if ('g' == t[0]) {
        char *end = NULL;
        double d = strtod((char *)b, &end), e = h_f(colon + 1);
        if (end != (char *)b + nb || (0 != memcmp(&d, &e, 8) && !(d != d && e != e))) { free(b); goto bad; }
      }
      fwrite(b, 1, nb, f);
      free(b);
    } else
      goto bad;
  }
  fclose(f);
  return 0;
bad:
  fclose(f);
  unlink(fname);
  return 1;
}

/* the text of a written file as tokens */
static void ob_file_tokens(const unsigned char *p, size_t n) {
  size_t i = 0;
  while (i < n) {
    size_t j;
    if (p[i] == '\n') { ob_put(" n:"); i++; continue; }
    if (p[i] == ' ' || p[i] == '\t' || p[i] == '\r') { i++; continue; }
    j = i;
    while (j < n && p[j] > ' ') j++;
    {
      char tok[512], *end = NULL;
      size_t l = j - i;
      if (l >= sizeof tok) { ob_put(" w:<long>"); i = j; continue; }
      memcpy(tok, p + i, l);
      tok[l] = 0;
      errno = 0;
      (void)strtol(tok, &end, 10);
      if (end == tok + l && 0 == errno && l < 12) {
        ob_put(" i:");
        ob_put(tok);
      } else {
        double d = strtod(tok, &end);
        if (end == tok + l) {
          unsigned long long u;
          char b[40];
          memcpy(&u, &d, 8);
          if (d != d) snprintf(b, sizeof b, " f:nan");
          else snprintf(b, sizeof b, " f:%016llx", u);
          ob_put(b);
        } else {
          ob_put(" w:");
          ob_put(tok);
        }
      }
    }
    i = j;
  }
}

/* ---------------------------------------------------------------- dumps */
static void dump_grid(REF_GRID grid) {
  REF_NODE node = ref_grid_node(grid);
  REF_INT n, c, j, k;
  ob_put("ok twod");
  ob_int(ref_grid_twod(grid) ? 1 : 0);
  ob_put(" n");
  ob_int(ref_node_n(node));
  each_ref_node_valid_node(node, n) {
    ob_dbl(ref_node_xyz(node, 0, n));
    ob_dbl(ref_node_xyz(node, 1, n));
    ob_dbl(ref_node_xyz(node, 2, n));
  }
  for (k = 0; k < NK; k++) {
    REF_CELL cell = kcell(grid, k);
    ob_put(" ");
    ob_put(knames[k]);
    ob_int(ref_cell_n(cell));
    each_ref_cell_valid_cell(cell, c) for (j = 0; j < ref_cell_size_per(cell); j++) ob_int(ref_cell_c2n(cell, j, c));
  }
}

/* ---------------------------------------------------------------- MESH -> REF_GRID (serial) */
static REF_GRID build_mesh(int k0) {
  REF_GRID grid = NULL;
  REF_NODE node;
  int k = k0, i, ns, kd, twod;
  char *live = NULL;
  if (k + 4 > h_nw || strcmp(h_w[k], "twod") || !is_int(h_w[k + 1]) || strcmp(h_w[k + 2], "n") || !is_int(h_w[k + 3]))
    return NULL;
  twod = (int)h_i(h_w[k + 1]);
  ns = (int)h_i(h_w[k + 3]);
  if (twod < 0 || twod > 1 || ns < 0 || ns > 60000) return NULL;
  if (REF_SUCCESS != ref_grid_create(&grid, mpi)) return NULL;
  ref_grid_twod(grid) = twod ? REF_TRUE : REF_FALSE;
  node = ref_grid_node(grid);
  live = (char *)calloc((size_t)ns + 1, 1);
  k += 4;
  for (i = 0; i < ns; i++) {
    REF_INT local;
    if (k >= h_nw) goto bad;
    if (REF_SUCCESS != ref_node_add(node, i, &local) || local != i) goto bad;
    if (0 == strcmp(h_w[k], "-")) {
      k++;
      continue;
    }
    if (k + 3 > h_nw || !is_f(h_w[k]) || !is_f(h_w[k + 1]) || !is_f(h_w[k + 2])) goto bad;
    ref_node_xyz(node, 0, local) = h_f(h_w[k]);
    ref_node_xyz(node, 1, local) = h_f(h_w[k + 1]);
    ref_node_xyz(node, 2, local) = h_f(h_w[k + 2]);
    live[i] = 1;
    k += 3;
  }
  for (i = 0; i < ns; i++)
    if (!live[i] && REF_SUCCESS != ref_node_remove(node, i)) goto bad;
  for (kd = 0; kd < NK; kd++) {
    REF_CELL cell = kcell(grid, kd);
    int nc, c, j, w = kper[kd] + ktag[kd];
    if (k + 2 > h_nw || strcmp(h_w[k], knames[kd]) || !is_int(h_w[k + 1])) goto bad;
    nc = (int)h_i(h_w[k + 1]);
    k += 2;
    if (nc < 0 || (long long)k + (long long)nc * w > h_nw) goto bad;
    for (c = 0; c < nc; c++) {
      REF_INT nodes[REF_CELL_MAX_SIZE_PER], newc;
      for (j = 0; j < w; j++) {
        long long v;
        if (!is_int(h_w[k + j])) goto bad;
        v = h_i(h_w[k + j]);
        if (!in_i32(v)) goto bad;
        if (j < kper[kd] && (v < 0 || v >= ns || !live[v])) goto bad;
        nodes[j] = (REF_INT)v;
      }
      if (REF_SUCCESS != ref_cell_add(cell, nodes, &newc)) goto bad;
      k += w;
    }
  }
  if (k != h_nw) goto bad;
  free(live);
  return grid;
bad:
  free(live);
  ref_grid_free(grid);
  return NULL;
}

/* ---------------------------------------------------------------- the work of one op (runs in the child) */
/* kind: 0 imp  1 robust_imp  2 robust  3 exp  4 rt  5 scalar  6 mapbc  7 mapbc_token */
static int bar; /* index of the `|` word, or h_nw */

static REF_STATUS static_import(REF_GRID *grid, int e) {
  switch (e) {
    case 0: return ref_import_ugrid(grid, mpi, fname);
    case 1: return ref_import_tri(grid, mpi, fname);
    case 2: return ref_import_surf(grid, mpi, fname);
    case 3: return ref_import_fgrid(grid, mpi, fname);
    case 4: return ref_import_r8_ugrid(grid, mpi, fname);
    case 5: return ref_import_su2(grid, mpi, fname);
    case 6: return ref_import_msh(grid, mpi, fname);
    default: return ref_import_i_like_cfd_grid(grid, mpi, fname);
  }
}

static void child_work(int kind) {
  REF_GRID grid = NULL, back = NULL;
  REF_STATUS s;
  char out_name[112];
  int e;
  ob_reset();
  switch (kind) {
    case 0:
    case 1:
    case 2:
      e = ext_id(h_w[1]);
      if (write_file(bar + 1)) { ob_put("bad-op"); return; }
      if (0 == kind) {
        s = static_import(&grid, e);
        if (REF_SUCCESS != s) { ob_put(h_status((int)s)); return; }
        dump_grid(grid);
        return;
      }
      s = ref_import_by_extension(&grid, mpi, fname);
      if (REF_SUCCESS != s || 1 == kind) { ob_put(h_status((int)s)); return; }
      snprintf(out_name, sizeof out_name, "ohf_%ld.%s", (long)getpid(), (2 == e || 4 == e) ? "ugrid" : h_w[1]);
      s = ref_export_by_extension(grid, out_name);
      unlink(out_name);
      ob_put(h_status((int)s));
      return;
    case 3:
    case 4: {
      unsigned char *bytes = NULL;
      size_t nb = 0;
      grid = build_mesh(2);
      if (!grid) { ob_put("bad-op"); return; }
      s = ref_export_by_extension(grid, fname);
      if (REF_SUCCESS != s) { ob_put(h_status((int)s)); return; }
      if (4 == kind) {
        s = ref_import_by_extension(&back, mpi, fname);
        if (REF_SUCCESS != s) { ob_put(h_status((int)s)); return; }
        dump_grid(back);
        return;
      }
      bytes = slurp(fname, &nb);
      if (!bytes) { ob_put("bad-op"); return; }
      ob_put("ok |");
      ob_file_tokens(bytes, nb);
      free(bytes);
      return;
    }
    case 5: {
      long long n = h_i(h_w[2]);
      int twod = (int)h_i(h_w[3]);
      REF_NODE node;
      REF_INT i, local, ldim = 0, j;
      REF_DBL *scalar = NULL;
      if (write_file(bar + 1)) { ob_put("bad-op"); return; }
      if (REF_SUCCESS != ref_grid_create(&grid, mpi)) { ob_put("bad-op"); return; }
      ref_grid_twod(grid) = twod ? REF_TRUE : REF_FALSE;
      node = ref_grid_node(grid);
      for (i = 0; i < (REF_INT)n; i++) {
        if (REF_SUCCESS != ref_node_add(node, i, &local) || local != i) { ob_put("bad-op"); return; }
        ref_node_xyz(node, 0, local) = (double)i;
        ref_node_xyz(node, 1, local) = 2.0 * (double)i;
        ref_node_xyz(node, 2, local) = twod ? 0.0 : 3.0 * (double)i;
      }
      if (REF_SUCCESS != ref_node_initialize_n_global(node, (REF_GLOB)n)) { ob_put("bad-op"); return; }
      s = ref_part_scalar(grid, &ldim, &scalar, fname);
      if (REF_SUCCESS != s) { ob_put(h_status((int)s)); return; }
      ob_put("ok");
      ob_int(ldim);
      /* .plt places its values by a nearest-vertex search: outside the model, only LDIM is printed */
      if (0 != strcmp(h_w[1], "plt"))
        for (i = 0; i < (REF_INT)n; i++)
          for (j = 0; j < ldim; j++) ob_dbl(scalar[j + ldim * i]);
      return;
    }
    default: {
      REF_DICT dict = NULL;
      REF_INT i;
      if (write_file(bar + 1)) { ob_put("bad-op"); return; }
      if (REF_SUCCESS != ref_dict_create(&dict)) { ob_put("bad-op"); return; }
      if (6 == kind) s = ref_phys_read_mapbc(dict, fname);
      else s = ref_phys_read_mapbc_token(dict, fname, h_w[1]);
      if (REF_SUCCESS != s) { ob_put(h_status((int)s)); return; }
      ob_put("ok");
      ob_int(ref_dict_n(dict));
      for (i = 0; i < ref_dict_n(dict); i++) {
        ob_int(ref_dict_key(dict, i));
        ob_int(ref_dict_keyvalue(dict, i));
      }
      if (6 == kind) {
        ob_put(" wall");
        for (i = 0; i < ref_dict_n(dict); i++)
          if (ref_phys_wall_distance_bc(ref_dict_keyvalue(dict, i))) ob_int(ref_dict_key(dict, i));
      }
      return;
    }
  }
}

static const char *signame(int sig) {
  switch (sig) {
    case SIGSEGV: return "SIGSEGV";
    case SIGBUS: return "SIGBUS";
    case SIGFPE: return "SIGFPE";
    case SIGABRT: return "SIGABRT";
    case SIGKILL: return "SIGKILL";
    case SIGILL: return "SIGILL";
    default: return "signal";
  }
}

static int sane_ext(const char *s) {
  size_t i, l = strlen(s);
  if (l < 1 || l > 12) return 0;
  for (i = 0; i < l; i++)
    if (!((s[i] >= 'a' && s[i] <= 'z') || (s[i] >= '0' && s[i] <= '9') || s[i] == '_' || s[i] == '.')) return 0;
  return 1;
}

static void op_child(int kind0) {
  int kind = kind0 % 100, hazard = kind0 >= 100;
  int fd[2], status = 0, robust = (1 == kind || 2 == kind), k;
  struct rusage ru;
  pid_t pid;
  char out_name[112];
  ob_reset();
  bar = h_nw;
  for (k = 1; k < h_nw; k++)
    if (0 == strcmp(h_w[k], "|")) { bar = k; break; }
  switch (kind) {
    case 0:
    case 1:
    case 2:
      if (bar != 2 || ext_id(h_w[1]) < 0) { ob_put("bad-op"); return; }
      snprintf(fname, sizeof fname, "hf_%ld.%s", (long)getpid(), h_w[1]);
      break;
    case 3:
    case 4:
      if (bar != h_nw || h_nw < 3 || ext_id(h_w[1]) < 0) { ob_put("bad-op"); return; }
      snprintf(fname, sizeof fname, "hf_%ld.%s", (long)getpid(), h_w[1]);
      break;
    case 5:
      if (bar != 4 || !sane_ext(h_w[1]) || !is_int(h_w[2]) || !is_int(h_w[3]) || h_i(h_w[2]) < 0 ||
          h_i(h_w[2]) > 100000 || h_i(h_w[3]) < 0 || h_i(h_w[3]) > 1) { ob_put("bad-op"); return; }
      snprintf(fname, sizeof fname, "hf_%ld.%s", (long)getpid(), h_w[1]);
      break;
    case 6:
      if (bar != 1) { ob_put("bad-op"); return; }
      snprintf(fname, sizeof fname, "hf_%ld.mapbc", (long)getpid());
      break;
    default:
      if (bar != 2 || strlen(h_w[1]) > 200) { ob_put("bad-op"); return; }
      snprintf(fname, sizeof fname, "hf_%ld.mapbc", (long)getpid());
      break;
  }
  snprintf(out_name, sizeof out_name, "o%s", fname);
  if (0 != pipe(fd)) { ob_put("bad-op"); return; }
  fflush(out);
  pid = fork();
  if (0 == pid) {
    size_t w = 0;
    close(fd[0]);
    alarm((unsigned)limit_s);
    if (!H_ASAN) {
      struct rlimit rl;
      rl.rlim_cur = rl.rlim_max = (rlim_t)1 << 30;
      setrlimit(RLIMIT_AS, &rl);
    }
    child_work(kind);
    while (w < ob_n) {
      ssize_t r = write(fd[1], ob + w, ob_n - w);
      if (r <= 0) break;
      w += (size_t)r;
    }
    close(fd[1]);
    unlink(fname);
    _exit(0);
  }
  close(fd[1]);
  {
    char buf[65536];
    ssize_t r;
    while ((r = read(fd[0], buf, sizeof buf - 1)) > 0) {
      buf[r] = 0;
      ob_put(buf);
    }
    close(fd[0]);
  }
  if (pid < 0 || wait4(pid, &status, 0, &ru) < 0) { ob_reset(); ob_put("bad-op"); return; }
  unlink(fname);
  unlink(out_name);
  {
    char other[112];
    snprintf(other, sizeof other, "ohf_%ld.ugrid", (long)pid);
    unlink(other);
    if (h_nw > 1 && sane_ext(h_w[1])) {
      snprintf(other, sizeof other, "ohf_%ld.%s", (long)pid, h_w[1]);
      unlink(other);
    }
  }
  if (WIFSIGNALED(status)) {
    ob_reset();
    if (SIGALRM == WTERMSIG(status)) ob_put("timeout");
    else { ob_put("crash "); ob_put(signame(WTERMSIG(status))); }
  } else if (WIFEXITED(status) && 0 != WEXITSTATUS(status)) {
    int c = WEXITSTATUS(status);
    ob_reset();
    ob_put(99 == c ? "crash asan" : 98 == c ? "crash ubsan" : "crash exit");
  } else if (ru.ru_maxrss > BLOAT_KB) {
    ob_reset();
    ob_put("bloat");
  } else if (robust && 0 != strcmp(ob, "bad-op")) {
    ob_reset();
    ob_put("returned");
  }
  if (hazard && 0 != strcmp(ob, "bad-op")) {
    int bad = (0 == strncmp(ob, "crash", 5) || 0 == strcmp(ob, "timeout") || 0 == strcmp(ob, "bloat"));
    ob_reset();
    ob_put(bad ? "hazard" : "clean");
  }
}

int main(int argc, char **argv) {
  int fd, a;
  if (REF_SUCCESS != ref_mpi_create(&mpi)) return 3;
  for (a = 1; a + 1 < argc; a += 2)
    if (0 == strcmp(argv[a], "--limit")) limit_s = atoi(argv[a + 1]);
  if (limit_s < 1) limit_s = 1;
  fd = dup(1);
  out = fdopen(fd, "w");
  if (!out || !freopen("/dev/null", "w", stdout)) return 3;
  while (h_next(stdin)) {
    const char *op = h_w[0];
    ob_reset();
    if (0 == strcmp(op, "imp")) op_child(0);
    else if (0 == strcmp(op, "robust_imp")) op_child(1);
    else if (0 == strcmp(op, "robust")) op_child(2);
    else if (0 == strcmp(op, "exp")) op_child(3);
    else if (0 == strcmp(op, "rt")) op_child(4);
    else if (0 == strcmp(op, "scalar")) op_child(5);
    else if (0 == strcmp(op, "hazard_imp")) op_child(100);
    else if (0 == strcmp(op, "hazard")) op_child(102);
    else if (0 == strcmp(op, "hazard_scalar")) op_child(105);
    else if (0 == strcmp(op, "hazard_exp")) op_child(103);
    else if (0 == strcmp(op, "mapbc")) op_child(6);
    else if (0 == strcmp(op, "mapbc_token")) op_child(7);
    else ob_put("bad-op");
    fputs(ob_n ? ob : "bad-op", out);
    fputc('\n', out);
    fflush(out);
  }
  fclose(out);
  ref_mpi_free(mpi);
  return 0;
}
