/* harness `dist2` (MPI): C06, second part — the real ref_migrate_shufflin on hand-built distributed grids, and
 * histories of ref_node id operations between two ref_node_synchronize_globals.
 *
 * Only rank 0 reads the op lines (`--ops <file>` or stdin); every op line is broadcast; rank 0 prints.
 *
 *   shufflin np N naux nround | node... C cell... | ... (np rank groups) [| part... ]*(nround-1)
 *       node = g,p,h1,...,h(15+naux)   global, NEW part, the 15 reals + naux aux values as 16-hex-digit bit patterns
 *       cell = grp,id,g1,...,gk        cell group 0..15, id (0 for groups without one), vertex globals
 *       every rank builds its REF_GRID with ref_node_add / ref_cell_add in token order (slot order = token order),
 *       n_global = N on every rank; then the real ref_migrate_shufflin; for every further round the part of every
 *       stored vertex is set to part[global] (what ref_migrate_to_balance does with node_part after
 *       ref_node_ghost_int) and ref_migrate_shufflin runs again on the same grid.
 *       -> per rank `st old new nunused N node... C cell...` (nodes by global, cells by (group, vertices, id)),
 *          rounds joined by ` ## `, ranks by ` | `.
 *   idhist np | ev... | ... (np rank groups)
 *       ev = N<n> (ref_node_initialize_n_global, first event of a rank) | a<g> (ref_node_add of global g) |
 *            F (next_global; add) | T (next_global; add; remove) | R<g> (ref_node_remove of the vertex with global g) |
 *            W<g> (ref_node_remove_without_global of ...) | S (ref_node_synchronize_globals: every rank must have the
 *            same number of S; the events of different ranks between two S are independent)
 *       -> per rank the id state `newN oldN nUnused T local:global ... U unused...` before and after every S and after
 *          the last event, joined by ` ## `.
 */
#include "h_proto.h"
#include <signal.h>
#include <unistd.h>

#include "ref_cell.h"
#include "ref_grid.h"
#include "ref_malloc.h"
#include "ref_migrate.h"
#include "ref_mpi.h"
#include "ref_node.h"

#ifndef HAVE_MPI
#error "h_dist2.c is an MPI harness: build with mpicc -DHAVE_MPI"
#endif
#include "mpi.h"

static FILE *out;
static int me, np;
static REF_MPI ref_mpi;

/* ---- result string ---- */
static char *res;
static size_t res_n, res_cap;
static void r_reset(void) {
  if (!res) { res_cap = 256; res = (char *)malloc(res_cap); }
  res_n = 0;
  res[0] = 0;
}
static void r_raw(const char *s) {
  size_t l = strlen(s);
  if (res_n + l + 2 > res_cap) {
    res_cap = 2 * (res_n + l + 2) + 64;
    res = (char *)realloc(res, res_cap);
  }
  memcpy(res + res_n, s, l + 1);
  res_n += l;
}
static void r_put(const char *s) {
  if (res_n > 0) r_raw(" ");
  r_raw(s);
}
static void r_ll(long long v) { char b[32]; snprintf(b, sizeof b, "%lld", v); r_put(b); }
static void r_fmt_dbl(char *b, double d) {
  uint64_t u;
  memcpy(&u, &d, 8);
  snprintf(b, 32, "%016llx", (unsigned long long)u);
}

static int is_int_tok(const char *s) {
  if (*s == '-') s++;
  if (!*s || strlen(s) > 10) return 0;
  for (; *s; s++) if (*s < '0' || *s > '9') return 0;
  return 1;
}
static int is_nat_tok(const char *s) {
  if (!*s || strlen(s) > 10) return 0;
  for (; *s; s++) if (*s < '0' || *s > '9') return 0;
  return 1;
}
static int is_hex16(const char *s) {
  int i;
  for (i = 0; s[i]; i++)
    if (!((s[i] >= '0' && s[i] <= '9') || (s[i] >= 'a' && s[i] <= 'f'))) return 0;
  return i == 16;
}
static void *zalloc(size_t n, size_t sz) { return calloc(n + 1, sz); }

/* ---- groups ---- */
#define MAXG 80
static int g_lo[MAXG], g_hi[MAXG], ng, hdr_end;
static int split_groups(void) {
  int i;
  ng = 0;
  hdr_end = h_nw;
  for (i = 2; i < h_nw; i++) {
    if (0 == strcmp(h_w[i], "|")) {
      if (ng == 0) hdr_end = i;
      else g_hi[ng - 1] = i;
      if (ng >= MAXG) return 0;
      g_lo[ng] = i + 1;
      g_hi[ng] = h_nw;
      ng++;
    }
  }
  return 1;
}
#define GLEN(g) (g_hi[g] - g_lo[g])
#define GW(g, k) (h_w[g_lo[g] + (k)])
#define NHDR (hdr_end - 2)
#define HDR(k) (h_w[2 + (k)])

static void on_alarm(int sig) {
  (void)sig;
  _exit(97);
}

#define BAD 1
#define LIMN 100000
#define MAXNODE 2000
#define MAXCELL 4000
#define NREAL 15

static int split_commas(char *t, char **f, int maxf) {
  int n = 0;
  char *p = t;
  f[n++] = p;
  for (; *p; p++)
    if (*p == ',') {
      *p = 0;
      if (n >= maxf) return -1;
      f[n++] = p + 1;
    }
  return n;
}

static void gather_print(void) {
  int mylen = (int)res_n, *lens = NULL, *offs = NULL, i;
  char *all = NULL;
  if (0 == me) {
    lens = (int *)zalloc((size_t)np, sizeof(int));
    offs = (int *)zalloc((size_t)np, sizeof(int));
  }
  MPI_Gather(&mylen, 1, MPI_INT, lens, 1, MPI_INT, 0, MPI_COMM_WORLD);
  if (0 == me) {
    int tot = 0;
    for (i = 0; i < np; i++) { offs[i] = tot; tot += lens[i]; }
    all = (char *)zalloc((size_t)tot, 1);
  }
  MPI_Gatherv(res, mylen, MPI_CHAR, all, lens, offs, MPI_CHAR, 0, MPI_COMM_WORLD);
  if (0 == me) {
    for (i = 0; i < np; i++) {
      if (i) fputs(" | ", out);
      fwrite(all + offs[i], 1, (size_t)lens[i], out);
    }
    fputc('\n', out);
    fflush(out);
    free(all);
    free(lens);
    free(offs);
  }
}

/* ------------------------------------------------------------------ shufflin */
typedef struct {
  long long glob, part;
  char *val[NREAL + 8];
} NodeTok;
typedef struct {
  int grp, n;
  long long id, v[REF_CELL_MAX_SIZE_PER];
} CellTok;

static int node_per_of[REF_CELL_N_TYPE], has_id_of[REF_CELL_N_TYPE];

static void cell_tables(void) {
  int g;
  for (g = 0; g < REF_CELL_N_TYPE; g++) {
    REF_CELL c;
    if (REF_SUCCESS != ref_cell_create(&c, (REF_CELL_TYPE)g)) { node_per_of[g] = -1; continue; }
    node_per_of[g] = ref_cell_node_per(c);
    has_id_of[g] = ref_cell_last_node_is_an_id(c) ? 1 : 0;
    ref_cell_free(c);
  }
}

static int cmp_cell(const void *a, const void *b) {
  const long long *x = (const long long *)a, *y = (const long long *)b;
  int i; /* [grp, nnode, v..., id] padded to 12 */
  for (i = 0; i < 12; i++) {
    if (x[i] < y[i]) return -1;
    if (x[i] > y[i]) return 1;
  }
  return 0;
}
static int cmp_node(const void *a, const void *b) {
  const long long *x = (const long long *)a, *y = (const long long *)b;
  return (x[0] > y[0]) - (x[0] < y[0]);
}

static void dump_grid(REF_GRID ref_grid, REF_STATUS st) {
  REF_NODE ref_node = ref_grid_node(ref_grid);
  REF_CELL ref_cell;
  REF_INT node, group, cell, nodes[REF_CELL_MAX_SIZE_PER], i, k, n = 0, nc = 0;
  long long *ord, *cs;
  char b[64], hb[32];
  r_put(h_status((int)st));
  r_ll(ref_node->old_n_global);
  r_ll(ref_node->new_n_global);
  r_ll(ref_node_n_unused(ref_node));
  r_put("N");
  ord = (long long *)zalloc(2 * (size_t)ref_node_max(ref_node), sizeof(long long));
  each_ref_node_valid_node(ref_node, node) {
    ord[2 * n] = (long long)ref_node_global(ref_node, node);
    ord[2 * n + 1] = node;
    n++;
  }
  qsort(ord, (size_t)n, 2 * sizeof(long long), cmp_node);
  for (k = 0; k < n; k++) {
    node = (REF_INT)ord[2 * k + 1];
    snprintf(b, sizeof b, "%lld,%d", ord[2 * k], ref_node_part(ref_node, node));
    r_put(b);
    for (i = 0; i < REF_NODE_REAL_PER; i++) {
      r_fmt_dbl(hb, ref_node_real(ref_node, i, node));
      r_raw(",");
      r_raw(hb);
    }
    for (i = 0; i < ref_node_naux(ref_node); i++) {
      r_fmt_dbl(hb, ref_node_aux(ref_node, i, node));
      r_raw(",");
      r_raw(hb);
    }
  }
  free(ord);
  r_put("C");
  each_ref_grid_all_ref_cell(ref_grid, group, ref_cell) nc += ref_cell_n(ref_cell);
  cs = (long long *)zalloc(12 * (size_t)nc, sizeof(long long));
  nc = 0;
  each_ref_grid_all_ref_cell(ref_grid, group, ref_cell) {
    each_ref_cell_valid_cell_with_nodes(ref_cell, cell, nodes) {
      long long *c = cs + 12 * nc;
      for (i = 0; i < 12; i++) c[i] = -1;
      c[0] = group;
      c[1] = ref_cell_node_per(ref_cell);
      for (i = 0; i < ref_cell_node_per(ref_cell) && i < 9; i++) c[2 + i] = (long long)ref_node_global(ref_node, nodes[i]);
      c[11] = ref_cell_last_node_is_an_id(ref_cell) ? nodes[ref_cell_node_per(ref_cell)] : 0;
      nc++;
    }
  }
  qsort(cs, (size_t)nc, 12 * sizeof(long long), cmp_cell);
  for (k = 0; k < nc; k++) {
    long long *c = cs + 12 * k;
    snprintf(b, sizeof b, "%lld,%lld", c[0], c[11]);
    r_put(b);
    for (i = 0; i < c[1]; i++) {
      snprintf(b, sizeof b, ",%lld", c[2 + i]);
      r_raw(b);
    }
  }
  free(cs);
}

static int op_shufflin(void) {
  long long N, naux, nround;
  int g, i, k, rc = 0, nval;
  NodeTok **nd = NULL;
  CellTok **cl = NULL;
  int *nn = NULL, *ncl = NULL;
  long long *gpart = NULL; /* part of a global as the node tokens say (-1: not seen) */
  char *gconf = NULL;      /* copies of that global disagree on the part: allowed only when no cell references it */
  long long **rounds = NULL;
  char *f[64];
  if (NHDR != 3 || !is_nat_tok(HDR(0)) || !is_nat_tok(HDR(1)) || !is_nat_tok(HDR(2))) return BAD;
  N = h_i(HDR(0));
  naux = h_i(HDR(1));
  nround = h_i(HDR(2));
  if (N > LIMN || naux > 4 || nround < 1 || nround > 8 || ng != np + (int)nround - 1) return BAD;
  nval = NREAL + (int)naux;
  nd = (NodeTok **)zalloc((size_t)np, sizeof(NodeTok *));
  cl = (CellTok **)zalloc((size_t)np, sizeof(CellTok *));
  nn = (int *)zalloc((size_t)np, sizeof(int));
  ncl = (int *)zalloc((size_t)np, sizeof(int));
  gpart = (long long *)zalloc((size_t)N, sizeof(long long));
  gconf = (char *)zalloc((size_t)N, 1);
  rounds = (long long **)zalloc((size_t)nround, sizeof(long long *));
  for (i = 0; i < N; i++) gpart[i] = -1;
  for (g = 0; g < np && !rc; g++) {
    int cpos = -1, len = GLEN(g);
    char *seen;
    for (k = 0; k < len; k++)
      if (0 == strcmp(GW(g, k), "C")) {
        if (cpos >= 0) rc = BAD;
        cpos = k;
      }
    if (cpos < 0 || cpos > MAXNODE || len - cpos - 1 > MAXCELL) { rc = BAD; break; }
    if (rc) break;
    nd[g] = (NodeTok *)zalloc((size_t)cpos, sizeof(NodeTok));
    cl[g] = (CellTok *)zalloc((size_t)(len - cpos - 1), sizeof(CellTok));
    seen = (char *)zalloc((size_t)N, 1);
    for (k = 0; k < cpos && !rc; k++) {
      NodeTok *t = &nd[g][k];
      int nf = split_commas(GW(g, k), f, 64);
      if (nf != 2 + nval || !is_nat_tok(f[0]) || !is_nat_tok(f[1])) { rc = BAD; break; }
      t->glob = h_i(f[0]);
      t->part = h_i(f[1]);
      if (t->glob >= N || t->part >= np || seen[t->glob]) { rc = BAD; break; }
      seen[t->glob] = 1;
      if (gpart[t->glob] >= 0 && gpart[t->glob] != t->part) gconf[t->glob] = 1; /* copies disagree on the part */
      gpart[t->glob] = t->part;
      for (i = 0; i < nval; i++) {
        if (!is_hex16(f[2 + i])) rc = BAD;
        t->val[i] = f[2 + i];
      }
    }
    nn[g] = rc ? 0 : cpos;
    for (k = cpos + 1; k < len && !rc; k++) {
      CellTok *c = &cl[g][k - cpos - 1];
      int nf = split_commas(GW(g, k), f, 64), j;
      if (nf < 3 || !is_nat_tok(f[0]) || !is_int_tok(f[1])) { rc = BAD; break; }
      c->grp = (int)h_i(f[0]);
      c->id = h_i(f[1]);
      if (c->grp >= REF_CELL_N_TYPE || node_per_of[c->grp] != nf - 2 || (!has_id_of[c->grp] && c->id != 0)) { rc = BAD; break; }
      c->n = nf - 2;
      for (i = 0; i < c->n && !rc; i++) {
        if (!is_nat_tok(f[2 + i])) { rc = BAD; break; }
        c->v[i] = h_i(f[2 + i]);
        if (c->v[i] >= N || !seen[c->v[i]]) { rc = BAD; break; }
        for (j = 0; j < i; j++)
          if (c->v[j] == c->v[i]) rc = BAD;
      }
    }
    ncl[g] = rc ? 0 : len - cpos - 1;
    free(seen);
  }
  for (g = 0; g < np && !rc; g++)
    for (k = 0; k < ncl[g] && !rc; k++)
      for (i = 0; i < cl[g][k].n; i++)
        if (gconf[cl[g][k].v[i]]) rc = BAD;
  for (k = 1; k < nround && !rc; k++) {
    g = np + k - 1;
    if (GLEN(g) != N) { rc = BAD; break; }
    rounds[k] = (long long *)zalloc((size_t)N, sizeof(long long));
    for (i = 0; i < N; i++) {
      if (!is_nat_tok(GW(g, i)) || h_i(GW(g, i)) >= np) { rc = BAD; break; }
      rounds[k][i] = h_i(GW(g, i));
    }
  }
  if (!rc) {
    REF_GRID ref_grid = NULL;
    REF_NODE ref_node;
    REF_INT node, nodes[REF_CELL_MAX_SIZE_PER], cell;
    int bad = 0;
    if (REF_SUCCESS != ref_grid_create(&ref_grid, ref_mpi)) bad = 1;
    if (!bad) {
      ref_node = ref_grid_node(ref_grid);
      if (naux > 0) {
        ref_node_naux(ref_node) = (REF_INT)naux;
        if (REF_SUCCESS != ref_node_resize_aux(ref_node)) bad = 1;
      }
      for (k = 0; k < nn[me] && !bad; k++) {
        NodeTok *t = &nd[me][k];
        if (REF_SUCCESS != ref_node_add(ref_node, (REF_GLOB)t->glob, &node)) { bad = 1; break; }
        ref_node_part(ref_node, node) = (REF_INT)t->part;
        for (i = 0; i < NREAL; i++) ref_node_real(ref_node, i, node) = h_f(t->val[i]);
        for (i = 0; i < naux; i++) ref_node_aux(ref_node, i, node) = h_f(t->val[NREAL + i]);
      }
      if (REF_SUCCESS != ref_node_initialize_n_global(ref_node, (REF_GLOB)N)) bad = 1;
      for (k = 0; k < ncl[me] && !bad; k++) {
        CellTok *c = &cl[me][k];
        REF_CELL ref_cell = ref_grid_cell(ref_grid, c->grp);
        for (i = 0; i < c->n; i++)
          if (REF_SUCCESS != ref_node_local(ref_node, (REF_GLOB)c->v[i], &nodes[i])) bad = 1;
        if (ref_cell_last_node_is_an_id(ref_cell)) nodes[c->n] = (REF_INT)c->id;
        if (!bad && REF_SUCCESS != ref_cell_add(ref_cell, nodes, &cell)) bad = 1;
      }
    }
    if (bad) r_put("harness-build-failed");
    for (k = 0; k < nround && !bad; k++) {
      REF_STATUS st;
      if (k > 0) {
        each_ref_node_valid_node(ref_node, node) {
          ref_node_part(ref_node, node) = (REF_INT)rounds[k][ref_node_global(ref_node, node)];
        }
        r_put("##");
      }
      st = ref_migrate_shufflin(ref_grid);
      dump_grid(ref_grid, st);
      if (REF_SUCCESS != st) break; /* the other ranks block in the next collective: the alarm ends the run */
    }
    if (ref_grid) ref_grid_free(ref_grid);
  }
  for (g = 0; g < np; g++) {
    if (nd) free(nd[g]);
    if (cl) free(cl[g]);
  }
  for (k = 0; k < nround; k++)
    if (rounds) free(rounds[k]);
  free(rounds);
  free(nd);
  free(cl);
  free(nn);
  free(ncl);
  free(gpart);
  free(gconf);
  return rc;
}

/* ------------------------------------------------------------------ idhist */
static void put_ids(REF_NODE ref_node) {
  REF_INT node, i;
  char b[64];
  r_ll(ref_node->new_n_global);
  r_ll(ref_node->old_n_global);
  r_ll(ref_node_n_unused(ref_node));
  r_put("T");
  for (node = 0; node < ref_node_max(ref_node); node++)
    if (ref_node->global[node] >= 0) {
      snprintf(b, sizeof b, "%d:%lld", node, (long long)ref_node->global[node]);
      r_put(b);
    }
  r_put("U");
  for (i = 0; i < ref_node_n_unused(ref_node); i++) r_ll((long long)ref_node->unused_global[i]);
}

static int op_idhist(void) {
  int g, k, rc = 0, nsync = -1;
  REF_NODE ref_node;
  if (NHDR != 0 || ng != np) return BAD;
  /* every rank validates every group: same verdict everywhere */
  for (g = 0; g < np && !rc; g++) {
    int ns = 0;
    if (GLEN(g) > 4000) { rc = BAD; break; }
    for (k = 0; k < GLEN(g); k++) {
      const char *t = GW(g, k);
      if (0 == strcmp(t, "S")) ns++;
      else if (0 == strcmp(t, "F") || 0 == strcmp(t, "T")) continue;
      else if ((t[0] == 'a' || t[0] == 'R' || t[0] == 'W' || t[0] == 'N') && is_nat_tok(t + 1) && h_i(t + 1) < LIMN) {
        if (t[0] == 'N' && k != 0) rc = BAD;
      } else rc = BAD;
    }
    if (nsync >= 0 && ns != nsync) rc = BAD;
    nsync = ns;
  }
  if (rc) return rc;
  if (REF_SUCCESS != ref_node_create(&ref_node, ref_mpi)) return BAD;
  for (k = 0; k < GLEN(me); k++) {
    const char *t = GW(me, k);
    REF_STATUS st = REF_SUCCESS;
    REF_INT node = REF_EMPTY;
    REF_GLOB global;
    switch (t[0]) {
      case 'N': st = ref_node_initialize_n_global(ref_node, (REF_GLOB)h_i(t + 1)); break;
      case 'a': st = ref_node_add(ref_node, (REF_GLOB)h_i(t + 1), &node); break;
      case 'F':
        st = ref_node_next_global(ref_node, &global);
        if (REF_SUCCESS == st) st = ref_node_add(ref_node, global, &node);
        break;
      case 'T':
        st = ref_node_next_global(ref_node, &global);
        if (REF_SUCCESS == st) st = ref_node_add(ref_node, global, &node);
        if (REF_SUCCESS == st) st = ref_node_remove(ref_node, node);
        break;
      case 'R':
        st = ref_node_local(ref_node, (REF_GLOB)h_i(t + 1), &node);
        if (REF_SUCCESS == st) st = ref_node_remove(ref_node, node);
        else st = REF_SUCCESS; /* not stored: no-op (both sides) */
        break;
      case 'W':
        st = ref_node_local(ref_node, (REF_GLOB)h_i(t + 1), &node);
        if (REF_SUCCESS == st) st = ref_node_remove_without_global(ref_node, node);
        else st = REF_SUCCESS;
        break;
      case 'S':
        put_ids(ref_node);
        r_put("##");
        st = ref_node_synchronize_globals(ref_node);
        put_ids(ref_node);
        r_put("##");
        break;
      default: break;
    }
    if (REF_SUCCESS != st) {
      char b[64];
      snprintf(b, sizeof b, "ev%d:%s", k, h_status((int)st));
      r_put(b);
    }
  }
  put_ids(ref_node);
  ref_node_free(ref_node);
  return 0;
}

static void tokenise(void) {
  char *p;
  h_nw = 0;
  for (p = strtok(h_line, " \t\r\n"); p && h_nw < H_MAXW; p = strtok(NULL, " \t\r\n")) h_w[h_nw++] = p;
}

int main(int argc, char *argv[]) {
  int fd;
  FILE *in = stdin;
  MPI_Init(&argc, &argv);
  if (REF_SUCCESS != ref_mpi_create(&ref_mpi)) return 3;
  me = ref_mpi_rank(ref_mpi);
  np = ref_mpi_n(ref_mpi);
  if (argc >= 3 && 0 == strcmp(argv[1], "--ops") && 0 == me) {
    in = fopen(argv[2], "r");
    if (!in) return 4;
  }
  fd = dup(1);
  out = fdopen(fd, "w");
  if (!freopen("/dev/null", "w", stdout)) return 3;
  signal(SIGALRM, on_alarm);
  cell_tables();
  for (;;) {
    int len = -1, rc;
    const char *op;
    if (0 == me) {
      for (;;) {
        char *p;
        if (!fgets(h_line, sizeof(h_line), in)) { len = -1; break; }
        p = h_line;
        while (*p == ' ' || *p == '\t') p++;
        if (*p == '#' || *p == '\n' || *p == '\r' || *p == 0) continue;
        len = (int)strlen(h_line);
        break;
      }
    }
    MPI_Bcast(&len, 1, MPI_INT, 0, MPI_COMM_WORLD);
    if (len < 0) break;
    MPI_Bcast(h_line, len + 1, MPI_CHAR, 0, MPI_COMM_WORLD);
    tokenise();
    if (h_nw == 0) continue;
    op = h_w[0];
    r_reset();
    alarm(60);
    if (h_nw < 2 || !is_nat_tok(h_w[1]) || strlen(h_w[1]) > 6 || h_i(h_w[1]) != np) rc = BAD;
    else if (!split_groups()) rc = BAD;
    else if (0 == strcmp(op, "shufflin")) rc = op_shufflin();
    else if (0 == strcmp(op, "idhist")) rc = op_idhist();
    else rc = BAD;
    alarm(0);
    if (rc == BAD) {
      if (0 == me) { fputs("bad-op\n", out); fflush(out); }
      continue;
    }
    gather_print();
  }
  fclose(out);
  ref_mpi_free(ref_mpi);
  MPI_Finalize();
  return 0;
}
