/* harness `mixed` (properties C01 / C02 / C13): refine next to the cells it does not adapt.

   Every op line carries its own grid (the op-line format of harness/h_guards.c):

      <op> i0 i1 i2 i3 <w:hex> nn <3*nn hex xyz> ncell <cells>
      cells: edg a b id | tri a b c id | qua a b c d id | tet a b c d | pyr x5 | pri x6 | hex x8

   which is built in a real REF_GRID (ref_node_add / ref_cell_add on all seven groups) before the REAL function is
   called.  Static functions (ref_swap_edge_mixed, ref_swap_tri_edge, ref_cavity_mixed) are reached white-box by
   including ref_swap.c / ref_cavity.c; ref_smooth.c is included with ref_node_tet_quality redirected to a counting
   wrapper so that "ref_smooth_tet_improve went past its early exits" is observable.

   mode (argv[1]):
     (none)   function level, one answer line per op (diff stream):
                smixed|cmixed|wmixed|vmixed i0 i1      the four mixed guards          -> ok 0|1
                split i0 i1     ref_split_edge_mixed, then trial vertex nn at the midpoint + ref_split_edge
                collapse i0 i1  ref_collapse_edge_mixed, then ref_collapse_edge(keep i0, remove i1)
                swap i0 i1      ref_swap_edge_mixed, then ref_swap_tri_edge
                                                        -> ok blocked | ok done <status> | <dump of the whole grid>
                cform i0 i1 i2 i3   ref_cavity_form_{ball,insert,insert2,insert_tet,edge_swap,edge_split,
                                    edge_collapse}[i3]  -> ok gate 0|1   (1: MANIFOLD_CONSTRAINED before anything
                                                           was gathered)
                cenl i0 i1 i2   ref_cavity_enlarge_face on the face (i0,i1,i2) -> ok gate 0|1
     smooth   validate stream: `sm` / `sp` lines (what the real smoother did) followed by the op line
                improve i0      ref_smooth_tet_improve(node i0)     -> sm <entered> <moved> | <op words>
                pass            ref_smooth_pass; metric diag(1,1,w) on every node
                                -> sp | V node:entered:moved.. | B moved boundary nodes.. | Q a,b,c,d:low.. | <op words>
                                (V: the brackets of ref_smooth_tet_improve in call order; Q: the tets whose quality the
                                 "smooth low quality tets" loop evaluated, in order, low = quality < 0.10)
     run      validate stream: hooked real passes on the grid of the op line
                run <passes> <bg> <h0> <g> <zi> <hmax> <az> nn xyz.. ncell cells..
              one `rec` line per recorded hook event (star of the touched vertices incl. the non-simplex cells;
              frozen=1 iff the non-simplex cells and the coordinates of their vertices still equal the initial ones;
              for the `end` of a smoothing bracket moved=1 iff the vertex moved, entered=1 iff ref_node_tet_quality was
              called inside the bracket, i.e. the improver went past its early exits),
              one `done` line per op.
   The library prints on stdout: stdout goes to /dev/null, protocol lines to a dup of the original descriptor. */
#include <unistd.h>

#include "h_proto.h"
/* */
#include "ref_node.h"
static REF_STATUS h_spy_tet_quality(REF_NODE ref_node, REF_INT *nodes, REF_DBL *quality);
#define ref_node_tet_quality h_spy_tet_quality
#include "ref_smooth.c"
#undef ref_node_tet_quality
/* */
#include "ref_swap.c"
/* */
#include "ref_cavity.c"
/* */
#include "ref_adapt.h"
#include "ref_collapse.h"
#include "ref_geom.h"
#include "ref_grid.h"
#include "ref_interp.h"
#include "ref_math.h"
#include "ref_mpi.h"
#include "ref_split.h"
#include "ref_verif.h"

static FILE *out;
static REF_MPI ref_mpi;

/* ---- spy: calls of ref_node_tet_quality made by ref_smooth.c ------------------------------------------- */
static int in_improve = 0;   /* inside a begin/end bracket of a smoother (or a direct improve call) */
static int spy_inside = 0;   /* calls while in_improve */
#define LOWQ_CAP 4096
static int lowq_n = 0;
static REF_INT lowq_nodes[LOWQ_CAP][4];
static int lowq_flag[LOWQ_CAP];
static REF_STATUS h_spy_tet_quality(REF_NODE ref_node, REF_INT *nodes, REF_DBL *quality) {
  REF_STATUS st = ref_node_tet_quality(ref_node, nodes, quality);
  if (in_improve) {
    spy_inside++;
  } else if (REF_SUCCESS == st && lowq_n < LOWQ_CAP) {
    /* outside every improver: the quality test of the "smooth low quality tets" loop of ref_smooth_pass */
    int i;
    for (i = 0; i < 4; i++) lowq_nodes[lowq_n][i] = nodes[i];
    lowq_flag[lowq_n] = (*quality < 0.10) ? 1 : 0;
    lowq_n++;
  }
  return st;
}

/* ---- parsing (format of h_guards.c) ------------------------------------------------------------------- */
static int is_hex16(const char *s) { return 16 == strlen(s) && 16 == strspn(s, "0123456789abcdefABCDEF"); }
static int is_nat(const char *s) { return 0 < strlen(s) && strlen(s) < 9 && strlen(s) == strspn(s, "0123456789"); }
static int is_int(const char *s) {
  if ('-' == s[0]) s++;
  return is_nat(s);
}
static int kind_of(const char *s, int *size, int *has_id) {
  if (0 == strcmp(s, "edg")) { *size = 2; *has_id = 1; return REF_CELL_EDG; }
  if (0 == strcmp(s, "tri")) { *size = 3; *has_id = 1; return REF_CELL_TRI; }
  if (0 == strcmp(s, "qua")) { *size = 4; *has_id = 1; return REF_CELL_QUA; }
  if (0 == strcmp(s, "tet")) { *size = 4; *has_id = 0; return REF_CELL_TET; }
  if (0 == strcmp(s, "pyr")) { *size = 5; *has_id = 0; return REF_CELL_PYR; }
  if (0 == strcmp(s, "pri")) { *size = 6; *has_id = 0; return REF_CELL_PRI; }
  if (0 == strcmp(s, "hex")) { *size = 8; *has_id = 0; return REF_CELL_HEX; }
  return -1;
}

static long long I[4];
static double W;
static int NN;
#define NN_MAX 4000

/* words from `w0` on: i0 i1 i2 i3 w nn xyz.. nc cells..  -> grid; returns 0 when malformed (or a cell repeats a
   vertex: the kernels are only meant for non-degenerate cells) */
static int build(int w0, REF_GRID *grid_ptr) {
  REF_GRID ref_grid;
  REF_NODE ref_node;
  int i, j, c, k, w, ncells;
  long long nn, nc;
  if (h_nw < w0 + 7) return 0;
  for (i = 0; i < 4; i++) {
    if (!is_nat(h_w[w0 + i])) return 0;
    I[i] = h_i(h_w[w0 + i]);
  }
  if (!is_hex16(h_w[w0 + 4]) || !is_nat(h_w[w0 + 5])) return 0;
  W = h_f(h_w[w0 + 4]);
  nn = h_i(h_w[w0 + 5]);
  if (nn == 0 || nn > NN_MAX) return 0;
  w = w0 + 6;
  if (h_nw - w < 3 * nn + 1) return 0;
  for (i = 0; i < 3 * nn; i++)
    if (!is_hex16(h_w[w + i])) return 0;
  k = w + 3 * (int)nn;
  if (!is_nat(h_w[k])) return 0;
  nc = h_i(h_w[k]);
  k++;
  ncells = 0;
  c = k;
  while (c < h_nw) {
    int size, has_id, kind = kind_of(h_w[c], &size, &has_id);
    if (kind < 0 || h_nw - (c + 1) < size + has_id) return 0;
    for (i = 0; i < size; i++) {
      if (!is_nat(h_w[c + 1 + i]) || h_i(h_w[c + 1 + i]) >= nn) return 0;
      for (j = 0; j < i; j++)
        if (h_i(h_w[c + 1 + i]) == h_i(h_w[c + 1 + j])) return 0;
    }
    if (has_id) {
      if (!is_int(h_w[c + 1 + size])) return 0;
      if (h_i(h_w[c + 1 + size]) < -1000000 || h_i(h_w[c + 1 + size]) > 1000000) return 0;
    }
    c += 1 + size + has_id;
    ncells++;
  }
  if (ncells != nc) return 0;
  NN = (int)nn;
  if (REF_SUCCESS != ref_grid_create(&ref_grid, ref_mpi)) exit(4);
  ref_node = ref_grid_node(ref_grid);
  for (i = 0; i < nn; i++) {
    REF_INT node;
    if (REF_SUCCESS != ref_node_add(ref_node, i, &node) || node != i) exit(5);
    for (c = 0; c < 3; c++) ref_node_xyz(ref_node, c, node) = h_f(h_w[w + 3 * i + c]);
    for (c = 3; c < REF_NODE_REAL_PER; c++) ref_node_real(ref_node, c, node) = 0.0;
  }
  if (REF_SUCCESS != ref_node_initialize_n_global(ref_node, (REF_GLOB)nn)) exit(5);
  c = k;
  while (c < h_nw) {
    int size, has_id, kind = kind_of(h_w[c], &size, &has_id);
    REF_INT nodes[REF_CELL_MAX_SIZE_PER], cell;
    for (i = 0; i < size; i++) nodes[i] = (REF_INT)h_i(h_w[c + 1 + i]);
    if (has_id) nodes[size] = (REF_INT)h_i(h_w[c + 1 + size]);
    if (REF_SUCCESS != ref_cell_add(ref_grid_cell(ref_grid, kind), nodes, &cell)) exit(6);
    c += 1 + size + has_id;
  }
  *grid_ptr = ref_grid;
  return 1;
}

static void echo_op(int from) {
  int w;
  for (w = from; w < h_nw; w++) fprintf(out, " %s", h_w[w]);
}

/* ---- dumps ---------------------------------------------------------------------------------------------- */
static int row_len;
static int row_cmp(const void *a, const void *b) {
  const REF_INT *x = (const REF_INT *)a, *y = (const REF_INT *)b;
  int i;
  for (i = 0; i < row_len; i++) {
    if (x[i] < y[i]) return -1;
    if (x[i] > y[i]) return 1;
  }
  return 0;
}
static void print_rows(REF_INT *rows, int n, int len, int sorted) {
  int i, k;
  row_len = len;
  if (sorted) qsort(rows, (size_t)n, sizeof(REF_INT) * (size_t)len, row_cmp);
  for (i = 0; i < n; i++) {
    fputc(' ', out);
    for (k = 0; k < len; k++) fprintf(out, "%s%d", k ? "," : "", rows[k + len * i]);
  }
}
/* simplex groups sorted (the C re-uses freed rows), non-simplex groups in cell order (they must not change at all) */
static void print_group(const char *name, REF_CELL ref_cell, int sorted) {
  REF_INT cell, nodes[REF_CELL_MAX_SIZE_PER], n = 0, k, len = ref_cell_size_per(ref_cell);
  REF_INT *rows = (REF_INT *)malloc(sizeof(REF_INT) * (size_t)len * (size_t)(ref_cell_n(ref_cell) + 1));
  each_ref_cell_valid_cell_with_nodes(ref_cell, cell, nodes) {
    for (k = 0; k < len; k++) rows[k + len * n] = nodes[k];
    n++;
  }
  fprintf(out, " | %s", name);
  print_rows(rows, n, len, sorted);
  free(rows);
}
static void dump(REF_GRID g) {
  REF_NODE ref_node = ref_grid_node(g);
  REF_INT node;
  fprintf(out, " | N");
  each_ref_node_valid_node(ref_node, node) {
    fprintf(out, " %d:", node);
    h_pf(out, ref_node_xyz(ref_node, 0, node));
    fputc(':', out);
    h_pf(out, ref_node_xyz(ref_node, 1, node));
    fputc(':', out);
    h_pf(out, ref_node_xyz(ref_node, 2, node));
  }
  print_group("edg", ref_grid_edg(g), 1);
  print_group("tri", ref_grid_tri(g), 1);
  print_group("qua", ref_grid_qua(g), 0);
  print_group("tet", ref_grid_tet(g), 1);
  print_group("pyr", ref_grid_pyr(g), 0);
  print_group("pri", ref_grid_pri(g), 0);
  print_group("hex", ref_grid_hex(g), 0);
}

static void st_bool(REF_STATUS st, REF_BOOL b) {
  if (REF_SUCCESS == st)
    fprintf(out, "ok %d\n", b ? 1 : 0);
  else
    fprintf(out, "%s\n", h_status(st));
}

static void set_metric(REF_GRID ref_grid, double m33) {
  REF_NODE ref_node = ref_grid_node(ref_grid);
  REF_INT node;
  each_ref_node_valid_node(ref_node, node) {
    if (REF_SUCCESS != ref_node_metric_form(ref_node, node, 1, 0, 0, 1, 0, m33)) exit(7);
  }
}

/* ======================================= function level ================================================== */
static void function_level(void) {
  while (h_next(stdin)) {
    const char *op = h_w[0];
    REF_GRID ref_grid = NULL;
    REF_NODE ref_node;
    REF_BOOL allowed = REF_FALSE;
    REF_STATUS st;
    REF_INT n0, n1;
    if (!build(1, &ref_grid)) {
      fputs("bad-op\n", out);
      continue;
    }
    ref_node = ref_grid_node(ref_grid);
    n0 = (REF_INT)I[0];
    n1 = (REF_INT)I[1];
    if (I[0] >= NN || I[1] >= NN || I[2] >= NN || I[3] >= NN + 8) {
      fputs("bad-op\n", out);
    } else if (0 == strcmp(op, "cmixed")) {
      st = ref_collapse_edge_mixed(ref_grid, n0, n1, &allowed);
      st_bool(st, allowed);
    } else if (0 == strcmp(op, "smixed")) {
      st = ref_split_edge_mixed(ref_grid, n0, n1, &allowed);
      st_bool(st, allowed);
    } else if (0 == strcmp(op, "wmixed")) {
      st = ref_swap_edge_mixed(ref_grid, n0, n1, &allowed);
      st_bool(st, allowed);
    } else if (0 == strcmp(op, "vmixed")) {
      st = ref_cavity_mixed(ref_grid, n0, n1, &allowed);
      st_bool(st, allowed);
    } else if (0 == strcmp(op, "split")) {
      st = ref_split_edge_mixed(ref_grid, n0, n1, &allowed);
      if (REF_SUCCESS != st) {
        fprintf(out, "%s\n", h_status(st));
      } else if (!allowed) {
        fputs("ok blocked\n", out);
      } else {
        REF_INT new_node;
        REF_GLOB global;
        int i;
        /* the trial-vertex frame of ref_split_pass, the position is the midpoint */
        if (REF_SUCCESS != ref_node_next_global(ref_node, &global)) exit(8);
        if (REF_SUCCESS != ref_node_add(ref_node, global, &new_node) || new_node != NN) exit(8);
        for (i = 0; i < 3; i++)
          ref_node_xyz(ref_node, i, new_node) = 0.5 * (ref_node_xyz(ref_node, i, n0) + ref_node_xyz(ref_node, i, n1));
        st = ref_split_edge(ref_grid, n0, n1, new_node);
        fprintf(out, "ok done %s", h_status(st));
        dump(ref_grid);
        fputc('\n', out);
      }
    } else if (0 == strcmp(op, "collapse")) {
      st = ref_collapse_edge_mixed(ref_grid, n0, n1, &allowed);
      if (REF_SUCCESS != st) {
        fprintf(out, "%s\n", h_status(st));
      } else if (!allowed) {
        fputs("ok blocked\n", out);
      } else {
        st = ref_collapse_edge(ref_grid, n0, n1);
        fprintf(out, "ok done %s", h_status(st));
        dump(ref_grid);
        fputc('\n', out);
      }
    } else if (0 == strcmp(op, "swap")) {
      st = ref_swap_edge_mixed(ref_grid, n0, n1, &allowed);
      if (REF_SUCCESS != st) {
        fprintf(out, "%s\n", h_status(st));
      } else if (!allowed) {
        fputs("ok blocked\n", out);
      } else {
        st = ref_swap_tri_edge(ref_grid, n0, n1);
        fprintf(out, "ok done %s", h_status(st));
        dump(ref_grid);
        fputc('\n', out);
      }
    } else if (0 == strcmp(op, "cform")) {
      REF_CAVITY ref_cavity;
      REF_INT n2 = (REF_INT)I[2];
      int gate;
      if (I[3] > 6) {
        fputs("bad-op\n", out);
      } else {
        if (REF_SUCCESS != ref_cavity_create(&ref_cavity)) exit(9);
        set_metric(ref_grid, 1.0);
        switch ((int)I[3]) {
          case 0: st = ref_cavity_form_ball(ref_cavity, ref_grid, n0); break;
          case 1: st = ref_cavity_form_insert(ref_cavity, ref_grid, n2, n0, REF_EMPTY, REF_EMPTY); break;
          case 2: st = ref_cavity_form_insert2(ref_cavity, ref_grid, n2, n0, REF_EMPTY, REF_EMPTY); break;
          case 3: st = ref_cavity_form_insert_tet(ref_cavity, ref_grid, n2, n0, REF_EMPTY); break;
          case 4: st = ref_cavity_form_edge_swap(ref_cavity, ref_grid, n0, n1, n2); break;
          case 5: st = ref_cavity_form_edge_split(ref_cavity, ref_grid, n0, n1, n2); break;
          default: st = ref_cavity_form_edge_collapse(ref_cavity, ref_grid, n0, n1); break;
        }
        gate = (REF_SUCCESS == st && REF_CAVITY_MANIFOLD_CONSTRAINED == ref_cavity_state(ref_cavity) &&
                0 == ref_list_n(ref_cavity_tet_list(ref_cavity)) && 0 == ref_list_n(ref_cavity_tri_list(ref_cavity)) &&
                0 == ref_cavity_nface(ref_cavity) && 0 == ref_cavity_nseg(ref_cavity));
        fprintf(out, "ok gate %d\n", gate);
        if (REF_SUCCESS != ref_cavity_free(ref_cavity)) exit(9);
      }
    } else if (0 == strcmp(op, "cenl")) {
      REF_CAVITY ref_cavity;
      REF_INT face_nodes[3];
      face_nodes[0] = n0;
      face_nodes[1] = n1;
      face_nodes[2] = (REF_INT)I[2];
      if (n0 == n1 || n0 == face_nodes[2] || n1 == face_nodes[2]) {
        fputs("bad-op\n", out);
      } else {
        if (REF_SUCCESS != ref_cavity_create(&ref_cavity)) exit(9);
        if (REF_SUCCESS != ref_cavity_form_empty(ref_cavity, ref_grid, REF_EMPTY)) exit(9);
        if (REF_SUCCESS != ref_cavity_insert_face(ref_cavity, face_nodes)) exit(9);
        st = ref_cavity_enlarge_face(ref_cavity, 0);
        fprintf(out, "ok gate %d\n",
                (REF_SUCCESS == st && REF_CAVITY_MANIFOLD_CONSTRAINED == ref_cavity_state(ref_cavity)) ? 1 : 0);
        if (REF_SUCCESS != ref_cavity_free(ref_cavity)) exit(9);
      }
    } else {
      fputs("bad-op\n", out);
    }
    if (REF_SUCCESS != ref_grid_free(ref_grid)) exit(10);
  }
}

/* ======================================= smoothing (validate) ============================================ */
#define VISIT_CAP 20000
static int visit_n;
static REF_INT visit_node[VISIT_CAP];
static int visit_entered[VISIT_CAP], visit_moved[VISIT_CAP];
static char visit_kind[VISIT_CAP];
static REF_DBL visit_xyz[3];

static void smooth_hook(const char *phase, const char *kind, void *object, int n, const int *ints) {
  REF_GRID g = (REF_GRID)object;
  REF_NODE ref_node = ref_grid_node(g);
  int i;
  if (0 != strncmp(kind, "smooth_", 7) || n < 1) return;
  if (0 == strcmp(phase, "begin")) {
    in_improve = 1;
    spy_inside = 0;
    for (i = 0; i < 3; i++) visit_xyz[i] = ref_node_xyz(ref_node, i, ints[0]);
  } else if (0 == strcmp(phase, "end")) {
    in_improve = 0;
    if (visit_n < VISIT_CAP) {
      visit_node[visit_n] = ints[0];
      visit_kind[visit_n] = kind[8]; /* smooth_[e]dge -> 'd', smooth_t[r]i -> 'r', smooth_t[e]t -> 'e' */
      visit_entered[visit_n] = spy_inside > 0;
      visit_moved[visit_n] = 0;
      for (i = 0; i < 3; i++)
        if (memcmp(&visit_xyz[i], &ref_node_xyz(ref_node, i, ints[0]), sizeof(REF_DBL))) visit_moved[visit_n] = 1;
      visit_n++;
    }
  }
}

static void smooth_level(void) {
  while (h_next(stdin)) {
    const char *op = h_w[0];
    REF_GRID ref_grid = NULL;
    REF_NODE ref_node;
    REF_STATUS st;
    int i;
    if (!build(1, &ref_grid)) {
      fputs("skip bad-op\n", out);
      continue;
    }
    ref_node = ref_grid_node(ref_grid);
    if (I[0] >= NN || !(W > 1.0e-6) || !(W < 1.0e6)) {
      fputs("skip bad-op\n", out);
    } else if (0 == strcmp(op, "improve")) {
      REF_DBL before[3];
      int moved = 0;
      set_metric(ref_grid, W);
      for (i = 0; i < 3; i++) before[i] = ref_node_xyz(ref_node, i, (REF_INT)I[0]);
      in_improve = 1;
      spy_inside = 0;
      st = ref_smooth_tet_improve(ref_grid, (REF_INT)I[0]);
      in_improve = 0;
      for (i = 0; i < 3; i++)
        if (memcmp(&before[i], &ref_node_xyz(ref_node, i, (REF_INT)I[0]), sizeof(REF_DBL))) moved = 1;
      if (REF_SUCCESS != st) {
        fprintf(out, "skip %s\n", h_status(st));
      } else {
        fprintf(out, "sm %d %d |", spy_inside > 0, moved);
        echo_op(1);
        fputc('\n', out);
      }
    } else if (0 == strcmp(op, "pass")) {
      set_metric(ref_grid, W);
      visit_n = 0;
      lowq_n = 0;
      in_improve = 0;
      ref_verif_op_fcn = smooth_hook;
      st = ref_smooth_pass(ref_grid);
      ref_verif_op_fcn = NULL;
      in_improve = 0;
      if (REF_SUCCESS != st) {
        fprintf(out, "skip %s\n", h_status(st));
      } else {
        /* visits (tet smoother only: kind letter e): node:entered:moved ; moved boundary visits are listed too */
        fprintf(out, "sp | V");
        for (i = 0; i < visit_n; i++)
          if ('e' == visit_kind[i]) fprintf(out, " %d:%d:%d", visit_node[i], visit_entered[i], visit_moved[i]);
        fprintf(out, " | B");
        for (i = 0; i < visit_n; i++)
          if ('e' != visit_kind[i] && visit_moved[i]) fprintf(out, " %d", visit_node[i]);
        fprintf(out, " | Q");
        for (i = 0; i < lowq_n; i++)
          fprintf(out, " %d,%d,%d,%d:%d", lowq_nodes[i][0], lowq_nodes[i][1], lowq_nodes[i][2], lowq_nodes[i][3],
                  lowq_flag[i]);
        fprintf(out, " |");
        echo_op(1);
        fputc('\n', out);
      }
    } else {
      fputs("skip bad-op\n", out);
    }
    if (REF_SUCCESS != ref_grid_free(ref_grid)) exit(10);
  }
}

/* ======================================= run level: hooked real passes =================================== */
static uint64_t fnv(uint64_t h, const void *p, size_t n) {
  const unsigned char *c = (const unsigned char *)p;
  size_t i;
  for (i = 0; i < n; i++) {
    h ^= c[i];
    h *= 1099511628211ULL;
  }
  return h;
}
#define FNV0 1469598103934665603ULL

/* the non-simplex cells (qua, pyr, pri, hex rows in cell order) with validity and coordinate bits of every vertex */
static uint64_t frozen_hash(REF_GRID g) {
  REF_NODE ref_node = ref_grid_node(g);
  REF_CELL groups[4];
  REF_INT k, cell, nodes[REF_CELL_MAX_SIZE_PER], i;
  uint64_t h = FNV0;
  groups[0] = ref_grid_qua(g);
  groups[1] = ref_grid_pyr(g);
  groups[2] = ref_grid_pri(g);
  groups[3] = ref_grid_hex(g);
  for (k = 0; k < 4; k++) {
    REF_INT n = ref_cell_n(groups[k]);
    h = fnv(h, &n, sizeof(n));
    each_ref_cell_valid_cell_with_nodes(groups[k], cell, nodes) {
      h = fnv(h, &cell, sizeof(cell));
      h = fnv(h, nodes, sizeof(REF_INT) * (size_t)ref_cell_size_per(groups[k]));
      for (i = 0; i < ref_cell_node_per(groups[k]); i++) {
        int valid = ref_node_valid(ref_node, nodes[i]) ? 1 : 0;
        h = fnv(h, &valid, sizeof(valid));
        if (valid) h = fnv(h, ref_node_xyz_ptr(ref_node, nodes[i]), 3 * sizeof(REF_DBL));
      }
    }
  }
  return h;
}

#define NKIND 8
static const char *kinds[NKIND] = {"split_trial", "split_edge", "collapse_edge", "swap_tri_edge",
                                   "smooth_edge", "smooth_tri", "smooth_tet", "cavity_replace"};
static int rec_cap = 400; /* records per kind and run op; violations are always recorded */
static int rec_count[NKIND], rec_total, ev_total, frozen_bad, accepted[NKIND], moved_n;
static uint64_t frozen0;
static REF_DBL run_xyz[3];

#define STAR_CAP 8192
static REF_INT star_cell[7][STAR_CAP], star_n[7];
static REF_INT star_node[4 * STAR_CAP], star_nn;
static void add_node(REF_INT v) {
  REF_INT i;
  for (i = 0; i < star_nn; i++)
    if (star_node[i] == v) return;
  if (star_nn < 4 * STAR_CAP) star_node[star_nn++] = v;
}
static void star_groups(REF_GRID g, REF_CELL *cells) {
  cells[0] = ref_grid_edg(g);
  cells[1] = ref_grid_tri(g);
  cells[2] = ref_grid_qua(g);
  cells[3] = ref_grid_tet(g);
  cells[4] = ref_grid_pyr(g);
  cells[5] = ref_grid_pri(g);
  cells[6] = ref_grid_hex(g);
}
static void collect_star(REF_GRID g, int n, const int *ints) {
  REF_CELL cells[7];
  REF_INT k, j, i, item, cell, cn;
  star_groups(g, cells);
  star_nn = 0;
  for (k = 0; k < 7; k++) {
    star_n[k] = 0;
    for (j = 0; j < n; j++) {
      if (ints[j] < 0) continue;
      each_ref_cell_having_node(cells[k], ints[j], item, cell) {
        int have = 0;
        for (i = 0; i < star_n[k]; i++)
          if (star_cell[k][i] == cell) have = 1;
        if (!have && star_n[k] < STAR_CAP) star_cell[k][star_n[k]++] = cell;
      }
    }
    for (i = 0; i < star_n[k]; i++)
      for (cn = 0; cn < ref_cell_node_per(cells[k]); cn++) add_node(ref_cell_c2n(cells[k], cn, star_cell[k][i]));
  }
  for (j = 0; j < n; j++)
    if (ints[j] >= 0 && ref_node_valid(ref_grid_node(g), ints[j])) add_node(ints[j]);
}

static void run_hook(const char *phase, const char *kind, void *object, int n, const int *ints) {
  static const char *gname[] = {"edg", "tri", "qua", "tet", "pyr", "pri", "hex"};
  REF_GRID g;
  REF_NODE ref_node;
  REF_CELL cells[7];
  int kk, k, i, j, frozen, moved = 0, is_end, record;
  REF_INT *rows;
  for (kk = 0; kk < NKIND; kk++)
    if (0 == strcmp(kind, kinds[kk])) break;
  if (kk == NKIND) return;
  g = (7 == kk) ? ref_cavity_grid((REF_CAVITY)object) : (REF_GRID)object;
  ref_node = ref_grid_node(g);
  ev_total++;
  frozen = (frozen_hash(g) == frozen0);
  if (!frozen) frozen_bad++;
  is_end = (0 == strcmp(phase, "end"));
  if (0 == strcmp(phase, "begin") && kk >= 4 && kk <= 6) {
    in_improve = 1;
    spy_inside = 0;
    if (ints[0] >= 0 && ref_node_valid(ref_node, ints[0]))
      for (i = 0; i < 3; i++) run_xyz[i] = ref_node_xyz(ref_node, i, ints[0]);
  }
  if (is_end) in_improve = 0;
  if (is_end && ints[0] >= 0 && ref_node_valid(ref_node, ints[0])) {
    for (i = 0; i < 3; i++)
      if (memcmp(&run_xyz[i], &ref_node_xyz(ref_node, i, ints[0]), sizeof(REF_DBL))) moved = 1;
    if (moved) moved_n++;
  }
  if (0 == strcmp(phase, "accept")) accepted[kk]++;
  /* smoothing brackets are the bulk: only the moved ones (and the first few unmoved) are written out */
  record = !frozen && frozen_bad <= 5;
  if (!record && rec_count[kk] < rec_cap) {
    if (kk >= 4 && kk <= 6) {
      record = is_end && (moved || rec_count[kk] < 20);
    } else {
      record = 1;
    }
  }
  if (!record) return;
  rec_count[kk]++;
  rec_total++;
  star_groups(g, cells);
  collect_star(g, n, ints);
  fprintf(out, "rec %s %s %d %d %d frozen=%d moved=%d entered=%d twod=%d npyr=%d npri=%d nhex=%d nqua=%d valid=", phase,
          kind, ints[0], n > 1 ? ints[1] : -1, n > 2 ? ints[2] : -1, frozen, moved, (is_end && spy_inside > 0) ? 1 : 0,
          ref_grid_twod(g) ? 1 : 0, ref_cell_n(ref_grid_pyr(g)),
          ref_cell_n(ref_grid_pri(g)), ref_cell_n(ref_grid_hex(g)), ref_cell_n(ref_grid_qua(g)));
  for (j = 0; j < 3; j++)
    fprintf(out, "%d", (j < n && ints[j] >= 0 && ref_node_valid(ref_node, ints[j])) ? 1 : 0);
  for (k = 0; k < 7; k++) {
    int len = ref_cell_size_per(cells[k]);
    fprintf(out, " | %s", gname[k]);
    rows = (REF_INT *)malloc(sizeof(REF_INT) * (size_t)len * (size_t)(star_n[k] + 1));
    for (i = 0; i < star_n[k]; i++)
      for (j = 0; j < len; j++) rows[j + len * i] = ref_cell_c2n(cells[k], j, star_cell[k][i]);
    print_rows(rows, star_n[k], len, 1);
    free(rows);
  }
  fprintf(out, "\n");
}

/* run <passes> <bg 0|1> <h0> <g> <zi> <hmax> <az> nn xyz.. ncell cells..
   metric at a vertex: diag(1, 1, az) / h^2 with h = min(hmax, h0 + g * max(0, z - zi)); az = 1 is isotropic, a large az
   puts every tet below the 0.10 quality of the second interior loop of ref_smooth_pass */
static void run_level(void) {
  while (h_next(stdin)) {
    REF_GRID g = NULL;
    REF_NODE ref_node;
    REF_INT node;
    REF_STATUS s = REF_SUCCESS;
    REF_BOOL all_done;
    double h0, gr, zi, hmax, az;
    const char *p;
    char passes[32];
    int k, bg, twod;
    if (0 != strcmp(h_w[0], "run") || h_nw < 10 || strlen(h_w[1]) > 24 || !is_nat(h_w[2]) || !is_hex16(h_w[3]) ||
        !is_hex16(h_w[4]) || !is_hex16(h_w[5]) || !is_hex16(h_w[6]) || !is_hex16(h_w[7])) {
      fprintf(out, "done bad-op\n");
      continue;
    }
    strcpy(passes, h_w[1]);
    bg = (int)h_i(h_w[2]);
    h0 = h_f(h_w[3]);
    gr = h_f(h_w[4]);
    zi = h_f(h_w[5]);
    hmax = h_f(h_w[6]);
    az = h_f(h_w[7]);
    if (!(h0 > 1e-3 && h0 < 1e3) || !(gr >= 0.0 && gr < 1e3) || !(hmax > 1e-3 && hmax < 1e3) || !(zi == zi) ||
        !(az > 1e-6 && az < 1e6)) {
      fprintf(out, "done bad-op\n");
      continue;
    }
    {
      /* build() wants i0 i1 i2 i3 w nn ...: the words 8.. are "nn xyz.. nc cells.."; re-use the slots 3..7 */
      static char z0[] = "0";
      static char w1[] = "3ff0000000000000";
      h_w[3] = z0;
      h_w[4] = z0;
      h_w[5] = z0;
      h_w[6] = z0;
      h_w[7] = w1;
    }
    if (!build(3, &g)) {
      fprintf(out, "done bad-op\n");
      continue;
    }
    ref_node = ref_grid_node(g);
    /* triangles (+ quadrilaterals) without any volume cell: a planar 2-D grid; the grading then runs along y */
    twod = (0 == ref_cell_n(ref_grid_tet(g)) && 0 == ref_cell_n(ref_grid_pyr(g)) && 0 == ref_cell_n(ref_grid_pri(g)) &&
            0 == ref_cell_n(ref_grid_hex(g)) && 0 < ref_cell_n(ref_grid_tri(g)));
    if (twod) ref_grid_twod(g) = REF_TRUE;
    each_ref_node_valid_node(ref_node, node) {
      double z = ref_node_xyz(ref_node, twod ? 1 : 2, node);
      double h = h0 + gr * (z > zi ? z - zi : 0.0);
      if (h > hmax) h = hmax;
      if (REF_SUCCESS !=
          ref_node_metric_form(ref_node, node, 1.0 / (h * h), 0, 0, 1.0 / (h * h), 0, twod ? 1.0 : az / (h * h)))
        exit(7);
    }
    if (bg) { /* as `ref adapt -m`: vertex moves and new vertices re-interpolate the metric from a background copy */
      if (REF_SUCCESS == ref_grid_cache_background(g)) ref_interp_continuously(ref_grid_interp(g)) = REF_TRUE;
    }
    for (k = 0; k < NKIND; k++) rec_count[k] = accepted[k] = 0;
    rec_total = ev_total = frozen_bad = moved_n = 0;
    frozen0 = frozen_hash(g);
    in_improve = 0;
    ref_verif_op_fcn = run_hook;
    for (p = passes; *p && REF_SUCCESS == s; p++) {
      switch (*p) {
        case 'a': s = ref_adapt_pass(g, &all_done); break;
        case 's': s = ref_split_pass(g); break;
        case 'c': s = ref_collapse_pass(g); break;
        case 'w': s = twod ? ref_swap_tri_pass(g) : ref_cavity_pass(g); break; /* the halves of ref_adapt_swap */
        case 'm': s = ref_smooth_pass(g); break;
        default: break;
      }
    }
    ref_verif_op_fcn = NULL;
    fprintf(out,
            "done %s events=%d nrec=%d frozen_bad=%d frozen_end=%d twod=%d nnode=%d ntet=%d ntri=%d split=%d collapse=%d "
            "swap=%d cavity=%d moved=%d\n",
            h_status(s), ev_total, rec_total, frozen_bad, frozen_hash(g) == frozen0 ? 1 : 0, twod, ref_node_n(ref_node),
            ref_cell_n(ref_grid_tet(g)), ref_cell_n(ref_grid_tri(g)), accepted[1], accepted[2], accepted[3], accepted[7],
            moved_n);
    ref_grid_free(g);
  }
}

int main(int argc, char **argv) {
  {
    int fd = dup(1);
    if (fd < 0) return 3;
    out = fdopen(fd, "w");
    if (!out) return 3;
    if (!freopen("/dev/null", "w", stdout)) return 3;
  }
  if (REF_SUCCESS != ref_mpi_create(&ref_mpi)) return 4;
  if (argc > 1 && 0 == strcmp(argv[1], "smooth"))
    smooth_level();
  else if (argc > 1 && 0 == strcmp(argv[1], "run"))
    run_level();
  else
    function_level();
  fflush(out);
  return 0;
}
