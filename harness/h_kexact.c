/* C19 k-exact harness: the real ref_matrix_qr / ref_matrix_solve_ab, the static
   ref_recon_kexact_with_aux / ref_recon_kexact_center on explicit clouds, and the k-exact branches of
   ref_recon_gradient / ref_recon_signed_hessian / ref_recon_hessian on meshes built in process.
   White-box: ref_recon.c is included (Stream(..., whitebox=['ref_recon'])).

   ops (doubles as 16 hex digits)
     qr m n <m*n column-major>                 -> ok <q m*n> <r n*n> | div_zero
     solve_ab n <n*(n+1) column-major>          -> ok|ill_conditioned <x n> | div_zero
     kexact_aux twod center n (g x y z s)*n     -> <status> <grad 3> <hess 6>
     kexact_center x y z n (g x y z s)*n        -> ok <value> | <status>
     kx_grad|kx_shess|kx_hess twod nn <3*nn xyz> <nn scalar> ncell (kind n0 n1 ..)*ncell
                                                -> ok <3|6 per vertex> | <status>                      */
#include "h_proto.h"
#include <unistd.h>

#include "ref_recon.c"

#include "ref_cell.h"
#include "ref_cloud.h"
#include "ref_grid.h"
#include "ref_matrix.h"
#include "ref_mpi.h"
#include "ref_node.h"

static FILE *out;
static REF_MPI ref_mpi;

static void pv(const double *v, int n) {
  int i;
  for (i = 0; i < n; i++) {
    fputc(' ', out);
    h_pf(out, v[i]);
  }
}
static int all_hex(int from, int to) {
  int i;
  if (to > h_nw) return 0;
  for (i = from; i < to; i++) {
    if (16 != strlen(h_w[i])) return 0;
    if (16 != strspn(h_w[i], "0123456789abcdefABCDEF")) return 0;
  }
  return 1;
}
static int is_nat(const char *s) { return 0 < strlen(s) && strlen(s) < 9 && strlen(s) == strspn(s, "0123456789"); }
static int is_int(const char *s) {
  if ('-' == s[0]) s++;
  return is_nat(s);
}

static int kind_of(const char *s, int *size, int *twod) {
  if (0 == strcmp(s, "tri")) { *size = 3; *twod = 1; return REF_CELL_TRI; }
  if (0 == strcmp(s, "qua")) { *size = 4; *twod = 1; return REF_CELL_QUA; }
  if (0 == strcmp(s, "tet")) { *size = 4; *twod = 0; return REF_CELL_TET; }
  if (0 == strcmp(s, "pyr")) { *size = 5; *twod = 0; return REF_CELL_PYR; }
  if (0 == strcmp(s, "pri")) { *size = 6; *twod = 0; return REF_CELL_PRI; }
  if (0 == strcmp(s, "hex")) { *size = 8; *twod = 0; return REF_CELL_HEX; }
  return -1;
}

/* same mesh line as h_geom.c: `<op> twod nn <3*nn xyz> <nn scalar> ncell <cells>`; 0 when malformed */
static int build_mesh(REF_GRID *grid_ptr, REF_DBL **scalar_ptr, int *nn_ptr) {
  REF_GRID ref_grid;
  REF_NODE ref_node;
  REF_DBL *scalar;
  long long twod, nn, nc;
  int w, i, k, c, ncells;
  if (h_nw < 4 || !is_nat(h_w[1]) || !is_nat(h_w[2])) return 0;
  twod = h_i(h_w[1]);
  nn = h_i(h_w[2]);
  if (twod > 1 || nn == 0 || nn > 4000) return 0;
  if (h_nw - 3 < 4 * nn + 1) return 0;
  if (!all_hex(3, 3 + 4 * (int)nn)) return 0;
  w = 3 + 4 * (int)nn;
  if (!is_nat(h_w[w])) return 0;
  nc = h_i(h_w[w]);
  w++;
  ncells = 0;
  k = w;
  while (k < h_nw) {
    int size, td, kind = kind_of(h_w[k], &size, &td);
    if (kind < 0 || td != twod || h_nw - (k + 1) < size) return 0;
    for (i = 0; i < size; i++)
      if (!is_nat(h_w[k + 1 + i]) || h_i(h_w[k + 1 + i]) >= nn) return 0;
    k += 1 + size;
    ncells++;
  }
  if (ncells != nc) return 0;
  if (REF_SUCCESS != ref_grid_create(&ref_grid, ref_mpi)) exit(4);
  ref_grid_twod(ref_grid) = (REF_BOOL)twod;
  ref_node = ref_grid_node(ref_grid);
  scalar = (REF_DBL *)malloc(sizeof(REF_DBL) * (size_t)nn);
  for (i = 0; i < nn; i++) {
    REF_INT node;
    /* global id != local slot (strictly increasing map, so every order the C derives from global ids is the order of the
       model, which identifies a vertex with its index): a local/global mix-up in the k-exact driver is then visible */
    if (REF_SUCCESS != ref_node_add(ref_node, (REF_GLOB)(3 * i + 5), &node) || node != i) exit(5);
    for (c = 0; c < 3; c++) ref_node_xyz(ref_node, c, node) = h_f(h_w[3 + 3 * i + c]);
    for (c = 3; c < REF_NODE_REAL_PER; c++) ref_node_real(ref_node, c, node) = 0.0;
    scalar[i] = h_f(h_w[3 + 3 * (int)nn + i]);
  }
  k = w;
  while (k < h_nw) {
    int size, td, kind = kind_of(h_w[k], &size, &td);
    REF_INT nodes[REF_CELL_MAX_SIZE_PER], cell;
    for (i = 0; i < size; i++) nodes[i] = (REF_INT)h_i(h_w[k + 1 + i]);
    if (td) nodes[size] = 1; /* face id */
    if (REF_SUCCESS != ref_cell_add(ref_grid_cell(ref_grid, kind), nodes, &cell)) exit(6);
    k += 1 + size;
  }
  *grid_ptr = ref_grid;
  *scalar_ptr = scalar;
  *nn_ptr = (int)nn;
  return 1;
}

/* (g x y z s)*n starting at word w -> cloud through the real ref_cloud_store; NULL when malformed */
static REF_CLOUD build_cloud(int w, long long n) {
  REF_CLOUD ref_cloud;
  long long i;
  int c;
  if (n > 400 || h_nw != w + 5 * n) return NULL;
  for (i = 0; i < n; i++) {
    if (!is_int(h_w[w + 5 * i]) || !all_hex(w + 5 * (int)i + 1, w + 5 * (int)i + 5)) return NULL;
  }
  if (REF_SUCCESS != ref_cloud_create(&ref_cloud, 4)) exit(7);
  for (i = 0; i < n; i++) {
    REF_DBL aux[4];
    for (c = 0; c < 4; c++) aux[c] = h_f(h_w[w + 5 * i + 1 + c]);
    if (REF_SUCCESS != ref_cloud_store(ref_cloud, (REF_GLOB)h_i(h_w[w + 5 * i]), aux)) exit(8);
  }
  return ref_cloud;
}

int main(void) {
  {
    int fd = dup(1);
    if (fd < 0) return 3;
    out = fdopen(fd, "w");
    if (!out) return 3;
    if (!freopen("/dev/null", "w", stdout)) return 3;
  }
  if (REF_SUCCESS != ref_mpi_start(0, NULL)) return 3;
  if (REF_SUCCESS != ref_mpi_create(&ref_mpi)) return 3;

  while (h_next(stdin)) {
    const char *op = h_w[0];
    int st, i;
    if (0 == strcmp(op, "qr")) {
      long long m, n;
      double *a, *q, *r;
      if (h_nw < 3 || !is_nat(h_w[1]) || !is_nat(h_w[2])) { fputs("bad-op\n", out); continue; }
      m = h_i(h_w[1]);
      n = h_i(h_w[2]);
      if (m == 0 || n == 0 || m > 400 || n > 12 || h_nw != 3 + m * n || !all_hex(3, h_nw)) {
        fputs("bad-op\n", out);
        continue;
      }
      a = (double *)malloc(sizeof(double) * (size_t)(m * n));
      q = (double *)malloc(sizeof(double) * (size_t)(m * n));
      r = (double *)malloc(sizeof(double) * (size_t)(n * n));
      for (i = 0; i < m * n; i++) a[i] = h_f(h_w[3 + i]);
      st = ref_matrix_qr((REF_INT)m, (REF_INT)n, a, q, r);
      fputs(h_status(st), out);
      if (REF_SUCCESS == st) {
        pv(q, (int)(m * n));
        pv(r, (int)(n * n));
      }
      fputc('\n', out);
      free(r);
      free(q);
      free(a);
      continue;
    }
    if (0 == strcmp(op, "solve_ab")) {
      long long n;
      double *ab;
      if (h_nw < 2 || !is_nat(h_w[1])) { fputs("bad-op\n", out); continue; }
      n = h_i(h_w[1]);
      if (n == 0 || n > 12 || h_nw != 2 + n * (n + 1) || !all_hex(2, h_nw)) { fputs("bad-op\n", out); continue; }
      ab = (double *)malloc(sizeof(double) * (size_t)(n * (n + 1)));
      for (i = 0; i < n * (n + 1); i++) ab[i] = h_f(h_w[2 + i]);
      st = ref_matrix_solve_ab((REF_INT)n, (REF_INT)n + 1, ab);
      fputs(h_status(st), out);
      if (REF_SUCCESS == st || REF_ILL_CONDITIONED == st) pv(ab + n * n, (int)n);
      fputc('\n', out);
      free(ab);
      continue;
    }
    if (0 == strcmp(op, "kexact_aux")) {
      REF_CLOUD ref_cloud;
      double g[3], h[6];
      if (h_nw < 4 || !is_nat(h_w[1]) || !is_int(h_w[2]) || !is_nat(h_w[3]) || h_i(h_w[1]) > 1 ||
          NULL == (ref_cloud = build_cloud(4, h_i(h_w[3])))) {
        fputs("bad-op\n", out);
        continue;
      }
      for (i = 0; i < 3; i++) g[i] = -7.0;
      for (i = 0; i < 6; i++) h[i] = -7.0;
      st = ref_recon_kexact_with_aux((REF_GLOB)h_i(h_w[2]), ref_cloud, (REF_BOOL)h_i(h_w[1]), g, h);
      fputs(h_status(st), out);
      pv(g, 3);
      pv(h, 6);
      fputc('\n', out);
      ref_cloud_free(ref_cloud);
      continue;
    }
    if (0 == strcmp(op, "kexact_center")) {
      REF_CLOUD ref_cloud;
      double xyz[3], v = -7.0;
      if (h_nw < 5 || !all_hex(1, 4) || !is_nat(h_w[4]) || NULL == (ref_cloud = build_cloud(5, h_i(h_w[4])))) {
        fputs("bad-op\n", out);
        continue;
      }
      for (i = 0; i < 3; i++) xyz[i] = h_f(h_w[1 + i]);
      st = ref_recon_kexact_center(xyz, ref_cloud, &v);
      fputs(h_status(st), out);
      if (REF_SUCCESS == st) pv(&v, 1);
      fputc('\n', out);
      ref_cloud_free(ref_cloud);
      continue;
    }
    if (0 == strcmp(op, "kx_grad") || 0 == strcmp(op, "kx_shess") || 0 == strcmp(op, "kx_hess")) {
      REF_GRID ref_grid;
      REF_DBL *scalar, *res;
      int nn, per = (0 == strcmp(op, "kx_grad")) ? 3 : 6;
      if (!build_mesh(&ref_grid, &scalar, &nn)) { fputs("bad-op\n", out); continue; }
      res = (REF_DBL *)calloc((size_t)(per * ref_node_max(ref_grid_node(ref_grid))), sizeof(REF_DBL));
      if (0 == strcmp(op, "kx_grad"))
        st = ref_recon_gradient(ref_grid, scalar, res, REF_RECON_KEXACT);
      else if (0 == strcmp(op, "kx_shess"))
        st = ref_recon_signed_hessian(ref_grid, scalar, res, REF_RECON_KEXACT);
      else
        st = ref_recon_hessian(ref_grid, scalar, res, REF_RECON_KEXACT);
      fputs(h_status(st), out);
      if (REF_SUCCESS == st) pv(res, per * nn);
      fputc('\n', out);
      free(res);
      free(scalar);
      ref_grid_free(ref_grid);
      continue;
    }
    fputs("bad-op\n", out);
  }
  fflush(out);
  ref_mpi_free(ref_mpi);
  ref_mpi_stop();
  return 0;
}
