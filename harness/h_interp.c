/* harness `interp`: the donor-cell search of ref_interp.c, called in process on donor grids built from the op lines.
 * static functions (ref_interp_create_search, ref_interp_enclosing_tet_in_list / _tri_in_list, ref_interp_tree,
 * ref_interp_walk_agent) are reached by white-box inclusion of the current /repo/src/ref_interp.c.
 * refine's RSS/RAS macros print diagnostics to stdout on error branches, so the protocol lines go to a private copy
 * of fd 1 and stdout itself is pointed at /dev/null. */
#include "h_proto.h"
#include <unistd.h>
#include "ref_interp.c"

#include "ref_agents.h"
#include "ref_cell.h"
#include "ref_grid.h"
#include "ref_list.h"
#include "ref_mpi.h"
#include "ref_node.h"
#include "ref_search.h"

static FILE *out;
static REF_MPI h_mpi = NULL;
static REF_GRID from = NULL, to1 = NULL;
static REF_INTERP interp = NULL;
static int twod = 0, nnode = 0;
static double cur_scale = 2.0, cur_fuzz = 1.0e-12;

static int valid_f(const char *s) {
  int i;
  for (i = 0; i < 16; i++) {
    char c = s[i];
    if (!((c >= '0' && c <= '9') || (c >= 'a' && c <= 'f') || (c >= 'A' && c <= 'F'))) return 0;
  }
  return s[16] == 0;
}
static int valid_fs(int fromw, int count) {
  int i;
  if (h_nw < fromw + count) return 0;
  for (i = fromw; i < fromw + count; i++)
    if (!valid_f(h_w[i])) return 0;
  return 1;
}
static int valid_i(const char *s) {
  int n = 0;
  if (*s == '-') s++;
  while (*s >= '0' && *s <= '9') { s++; n++; }
  return *s == 0 && n > 0 && n < 10;
}
static int valid_is(int fromw, int count) {
  int i;
  if (h_nw < fromw + count) return 0;
  for (i = fromw; i < fromw + count; i++)
    if (!valid_i(h_w[i])) return 0;
  return 1;
}

static void zero_aux(REF_NODE ref_node, REF_INT node) {
  int c;
  for (c = 3; c < REF_NODE_REAL_PER; c++) ref_node_real(ref_node, c, node) = 0.0;
}

static void drop_all(void) {
  if (interp) ref_interp_free(interp);
  interp = NULL;
  if (to1) ref_grid_free(to1);
  to1 = NULL;
  if (from) ref_grid_free(from);
  from = NULL;
  nnode = 0;
}

static REF_CELL donor_cells(void) { return twod ? ref_grid_tri(from) : ref_grid_tet(from); }

/* set the session's donor_scale / fuzz on a freshly created interp: the search is rebuilt by the real
 * ref_interp_create_search with the new scale */
static REF_STATUS tune(REF_INTERP ri) {
  ref_interp_search_fuzz(ri) = cur_fuzz;
  if (cur_scale != 2.0) {
    ref_interp_search_donor_scale(ri) = cur_scale;
    ref_search_free(ref_interp_search(ri));
    ref_interp_search(ri) = NULL;
    return ref_interp_create_search(ri);
  }
  return REF_SUCCESS;
}

static void print_bary(const double *b) {
  int i;
  for (i = 0; i < 4; i++) { fputc(' ', out); h_pf(out, b[i]); }
}

static const char *mode_name(REF_AGENT_MODE m) {
  switch (m) {
    case REF_AGENT_WALKING: return "walking";
    case REF_AGENT_ENCLOSING: return "enclosing";
    case REF_AGENT_AT_BOUNDARY: return "at_boundary";
    case REF_AGENT_TERMINATED: return "terminated";
    default: return "mode?";
  }
}

static int distinct(const REF_INT *n, int k) {
  int i, j;
  for (i = 0; i < k; i++) {
    if (n[i] < 0 || n[i] >= nnode) return 0;
    for (j = 0; j < i; j++)
      if (n[i] == n[j]) return 0;
  }
  return 1;
}

/* `locate a gx gy gz <3 doubles per receptor node>`: a receptor grid of bare nodes (no geometry nodes, so no walk is
 * ever seeded) through the real ref_interp_locate, then ref_interp_scalar of the linear field a + g.x */
static void op_locate(void) {
  REF_GRID to = NULL;
  REF_INTERP li = NULL;
  REF_STATUS st;
  REF_INT node;
  int k = (h_nw - 5) / 3, i, c;
  double a = h_f(h_w[1]), g[3];
  REF_DBL *fs = NULL, *ts = NULL;
  g[0] = h_f(h_w[2]); g[1] = h_f(h_w[3]); g[2] = h_f(h_w[4]);
  st = ref_grid_create(&to, h_mpi);
  if (REF_SUCCESS != st) { fprintf(out, "%s\n", h_status(st)); return; }
  ref_grid_twod(to) = (REF_BOOL)twod;
  for (i = 0; i < k && REF_SUCCESS == st; i++) {
    st = ref_node_add(ref_grid_node(to), (REF_GLOB)(3 * i + 5), &node);
    if (REF_SUCCESS != st) break;
    for (c = 0; c < 3; c++) ref_node_xyz(ref_grid_node(to), c, node) = h_f(h_w[5 + 3 * i + c]);
    zero_aux(ref_grid_node(to), node);
  }
  if (REF_SUCCESS == st) st = ref_interp_create(&li, from, to);
  if (REF_SUCCESS == st) st = tune(li);
  if (REF_SUCCESS == st) st = ref_interp_locate(li);
  fprintf(out, "%s", h_status(st));
  if (li) { fputc(' ', out); h_pf(out, ref_interp_search_fuzz(li)); }
  if (REF_SUCCESS == st) {
    REF_STATUS st2;
    fs = (REF_DBL *)malloc(sizeof(REF_DBL) * (size_t)(nnode + 1));
    ts = (REF_DBL *)malloc(sizeof(REF_DBL) * (size_t)(k + 1));
    for (i = 0; i < nnode; i++) {
      REF_DBL *x = ref_node_xyz_ptr(ref_grid_node(from), i);
      fs[i] = a + g[0] * x[0] + g[1] * x[1] + g[2] * x[2];
    }
    for (i = 0; i < k; i++) ts[i] = 0.0;
    st2 = ref_interp_scalar(li, 1, fs, ts);
    fprintf(out, " %s", h_status(st2));
    for (i = 0; i < k; i++) {
      fprintf(out, " | %d", li->cell[i]);
      print_bary(&(li->bary[4 * i]));
      if (REF_SUCCESS == st2) { fputc(' ', out); h_pf(out, ts[i]); }
    }
  }
  fputc('\n', out);
  free(fs);
  free(ts);
  if (li) ref_interp_free(li);
  if (to) ref_grid_free(to);
}

/* `self a gx gy gz s`: the receptor is a deep copy of the donor grid (cells and boundary included, so geometry nodes
 * seed the walk) with every node moved to c + s (x - c) about the donor centroid c; the real ref_interp_locate and
 * ref_interp_scalar.  Output for the Python oracle only (no model side). */
static void op_self(void) {
  REF_GRID to = NULL;
  REF_INTERP li = NULL;
  REF_STATUS st;
  REF_INT node;
  int i, c;
  double a = h_f(h_w[1]), g[3], s = h_f(h_w[5]), ctr[3] = {0, 0, 0};
  REF_DBL *fs = NULL, *ts = NULL;
  g[0] = h_f(h_w[2]); g[1] = h_f(h_w[3]); g[2] = h_f(h_w[4]);
  st = ref_grid_deep_copy(&to, from);
  if (REF_SUCCESS != st) { fprintf(out, "%s\n", h_status(st)); return; }
  for (i = 0; i < nnode; i++)
    for (c = 0; c < 3; c++) ctr[c] += ref_node_xyz(ref_grid_node(from), c, i) / (double)nnode;
  each_ref_node_valid_node(ref_grid_node(to), node) {
    for (c = 0; c < 3; c++)
      ref_node_xyz(ref_grid_node(to), c, node) = ctr[c] + s * (ref_node_xyz(ref_grid_node(to), c, node) - ctr[c]);
  }
  st = ref_interp_create(&li, from, to);
  if (REF_SUCCESS == st) st = tune(li);
  if (REF_SUCCESS == st) st = ref_interp_locate(li);
  fprintf(out, "%s", h_status(st));
  if (REF_SUCCESS == st) {
    REF_STATUS st2;
    fs = (REF_DBL *)malloc(sizeof(REF_DBL) * (size_t)(nnode + 1));
    ts = (REF_DBL *)malloc(sizeof(REF_DBL) * (size_t)(nnode + 1));
    for (i = 0; i < nnode; i++) {
      REF_DBL *x = ref_node_xyz_ptr(ref_grid_node(from), i);
      fs[i] = a + g[0] * x[0] + g[1] * x[1] + g[2] * x[2];
      ts[i] = 0.0;
    }
    st2 = ref_interp_scalar(li, 1, fs, ts);
    fprintf(out, " %s %d %d %d", h_status(st2), li->n_geom, li->n_walk, li->n_tree);
    for (i = 0; i < nnode; i++) {
      fputs(" |", out);
      for (c = 0; c < 3; c++) { fputc(' ', out); h_pf(out, ref_node_xyz(ref_grid_node(to), c, i)); }
      fprintf(out, " %d", li->cell[i]);
      print_bary(&(li->bary[4 * i]));
      if (REF_SUCCESS == st2) { fputc(' ', out); h_pf(out, ts[i]); }
    }
  }
  fputc('\n', out);
  free(fs);
  free(ts);
  if (li) ref_interp_free(li);
  if (to) ref_grid_free(to);
}

int main(void) {
  out = fdopen(dup(1), "w");
  if (!out || !freopen("/dev/null", "w", stdout)) return 3;
  if (REF_SUCCESS != ref_mpi_start(0, NULL)) return 3;
  if (REF_SUCCESS != ref_mpi_create(&h_mpi)) return 3;
  while (h_next(stdin)) {
    const char *op = h_w[0];
    if (0 == strcmp(op, "reset") && h_nw == 2 && (0 == strcmp(h_w[1], "0") || 0 == strcmp(h_w[1], "1"))) {
      drop_all();
      twod = h_w[1][0] - '0';
      cur_scale = 2.0;
      cur_fuzz = 1.0e-12;
      if (REF_SUCCESS != ref_grid_create(&from, h_mpi)) return 4;
      ref_grid_twod(from) = (REF_BOOL)twod;
      fputs("ok\n", out);
    } else if (!from) {
      fputs("bad-op\n", out);
    } else if (0 == strcmp(op, "node") && h_nw == 4 && valid_fs(1, 3) && !interp && nnode < 100000) {
      REF_INT node;
      int c;
      if (REF_SUCCESS != ref_node_add(ref_grid_node(from), (REF_GLOB)(3 * nnode + 5), &node) || node != nnode) return 5;
      for (c = 0; c < 3; c++) ref_node_xyz(ref_grid_node(from), c, node) = h_f(h_w[1 + c]);
      zero_aux(ref_grid_node(from), node);
      nnode++;
      fputs("ok\n", out);
    } else if (0 == strcmp(op, "cell") && h_nw == (twod ? 4 : 5) && valid_is(1, h_nw - 1) && !interp) {
      REF_INT nodes[5], cell;
      int i, k = h_nw - 1;
      for (i = 0; i < k; i++) nodes[i] = (REF_INT)h_i(h_w[1 + i]);
      if (!distinct(nodes, k)) { fputs("bad-op\n", out); continue; }
      if (twod) nodes[3] = 1;
      if (REF_SUCCESS != ref_cell_add(donor_cells(), nodes, &cell)) return 6;
      fprintf(out, "ok %d\n", cell);
    } else if (0 == strcmp(op, "rmcell") && h_nw == 2 && valid_i(h_w[1]) && !interp) {
      REF_INT cell = (REF_INT)h_i(h_w[1]);
      if (!ref_cell_valid(donor_cells(), cell)) { fputs("bad-op\n", out); continue; }
      if (REF_SUCCESS != ref_cell_remove(donor_cells(), cell)) return 6;
      fputs("ok\n", out);
    } else if (0 == strcmp(op, "btri") && h_nw == 5 && valid_is(1, 4) && !interp && !twod) {
      REF_INT nodes[4], cell;
      int i;
      for (i = 0; i < 4; i++) nodes[i] = (REF_INT)h_i(h_w[1 + i]);
      if (!distinct(nodes, 3) || nodes[3] < 1 || nodes[3] > 100) { fputs("bad-op\n", out); continue; }
      if (REF_SUCCESS != ref_cell_add(ref_grid_tri(from), nodes, &cell)) return 6;
      fputs("ok\n", out);
    } else if (0 == strcmp(op, "bedg") && h_nw == 4 && valid_is(1, 3) && !interp && twod) {
      REF_INT nodes[3], cell;
      int i;
      for (i = 0; i < 3; i++) nodes[i] = (REF_INT)h_i(h_w[1 + i]);
      if (!distinct(nodes, 2) || nodes[2] < 1 || nodes[2] > 100) { fputs("bad-op\n", out); continue; }
      if (REF_SUCCESS != ref_cell_add(ref_grid_edg(from), nodes, &cell)) return 6;
      fputs("ok\n", out);
    } else if (0 == strcmp(op, "build") && (h_nw == 1 || (h_nw == 2 && valid_f(h_w[1]))) && !interp &&
               ref_cell_n(donor_cells()) > 0) {
      REF_STATUS st;
      REF_INT node;
      int c;
      if (h_nw == 2) cur_scale = h_f(h_w[1]);
      if (REF_SUCCESS != ref_grid_create(&to1, h_mpi)) return 7;
      ref_grid_twod(to1) = (REF_BOOL)twod;
      if (REF_SUCCESS != ref_node_add(ref_grid_node(to1), 0, &node)) return 7;
      for (c = 0; c < REF_NODE_REAL_PER; c++) ref_node_real(ref_grid_node(to1), c, node) = 0.0;
      st = ref_interp_create(&interp, from, to1);
      if (REF_SUCCESS == st) st = tune(interp);
      if (REF_SUCCESS != st) { fprintf(out, "%s\n", h_status(st)); return 7; }
      fprintf(out, "ok %d %d\n", ref_interp_search(interp)->n, ref_interp_search(interp)->empty);
    } else if (!interp) {
      fputs("bad-op\n", out);
    } else if (0 == strcmp(op, "dump") && h_nw == 1) {
      REF_SEARCH tree = ref_interp_search(interp);
      int i;
      fprintf(out, "ok %d %d I", tree->n, tree->empty);
      for (i = 0; i < tree->n; i++) fprintf(out, " %d", tree->item[i]);
      fputs(" L", out);
      for (i = 0; i < tree->n; i++) fprintf(out, " %d", tree->left[i]);
      fputs(" R", out);
      for (i = 0; i < tree->n; i++) fprintf(out, " %d", tree->right[i]);
      fputs(" B", out);
      for (i = 0; i < tree->n; i++) { fputc(' ', out); h_pf(out, tree->children_ball[i]); }
      fputc('\n', out);
    } else if (0 == strcmp(op, "sphere") && h_nw == 2 && valid_i(h_w[1])) {
      /* what ref_interp_create_search stored for this donor cell */
      REF_SEARCH tree = ref_interp_search(interp);
      REF_INT cell = (REF_INT)h_i(h_w[1]);
      int i, slot = -1;
      for (i = 0; i < tree->empty; i++)
        if (tree->item[i] == cell) { slot = i; break; }
      if (slot < 0) { fputs("bad-op\n", out); continue; }
      fputs("ok", out);
      for (i = 0; i < 3; i++) { fputc(' ', out); h_pf(out, tree->pos[3 * slot + i]); }
      fputc(' ', out);
      h_pf(out, tree->radius[slot]);
      fputc('\n', out);
    } else if (0 == strcmp(op, "fuzz") && h_nw == 2 && valid_f(h_w[1])) {
      cur_fuzz = h_f(h_w[1]);
      ref_interp_search_fuzz(interp) = cur_fuzz;
      fputs("ok\n", out);
    } else if (0 == strcmp(op, "touch") && h_nw == 5 && valid_fs(1, 4)) {
      REF_LIST l;
      double p[3];
      REF_STATUS st;
      int i;
      p[0] = h_f(h_w[1]); p[1] = h_f(h_w[2]); p[2] = h_f(h_w[3]);
      ref_list_create(&l);
      st = ref_search_touching(ref_interp_search(interp), l, p, h_f(h_w[4]));
      if (REF_SUCCESS != st) fprintf(out, "%s\n", h_status(st));
      else {
        fprintf(out, "ok %d", ref_list_n(l));
        for (i = 0; i < ref_list_n(l); i++) fprintf(out, " %d", ref_list_value(l, i));
        fputc('\n', out);
      }
      ref_list_free(l);
    } else if (0 == strcmp(op, "inlist") && h_nw >= 4 && valid_fs(1, 3) && valid_is(4, h_nw - 4)) {
      REF_LIST l;
      double p[3], bary[4] = {0, 0, 0, 0};
      REF_INT cell = REF_EMPTY;
      REF_STATUS st;
      int i;
      p[0] = h_f(h_w[1]); p[1] = h_f(h_w[2]); p[2] = h_f(h_w[3]);
      ref_list_create(&l);
      for (i = 4; i < h_nw; i++) ref_list_push(l, (REF_INT)h_i(h_w[i]));
      if (twod) st = ref_interp_enclosing_tri_in_list(interp, l, p, &cell, bary);
      else st = ref_interp_enclosing_tet_in_list(interp, l, p, &cell, bary);
      fprintf(out, "%s", h_status(st));
      if (REF_SUCCESS == st) { fprintf(out, " %d", cell); print_bary(bary); }
      fputc('\n', out);
      ref_list_free(l);
    } else if (0 == strcmp(op, "tree") && h_nw == 4 && valid_fs(1, 3)) {
      /* the real ref_interp_tree on the one-node receptor */
      REF_BOOL inc = REF_FALSE;
      REF_STATUS st;
      int c;
      for (c = 0; c < 3; c++) ref_node_xyz(ref_grid_node(to1), c, 0) = h_f(h_w[1 + c]);
      interp->cell[0] = REF_EMPTY;
      interp->agent_hired[0] = REF_FALSE;
      st = ref_interp_tree(interp, &inc);
      fprintf(out, "%s", h_status(st));
      if (REF_SUCCESS == st) {
        fprintf(out, " %d %d", (int)inc, interp->cell[0]);
        if (REF_EMPTY != interp->cell[0]) print_bary(interp->bary);
      }
      fputc('\n', out);
    } else if (0 == strcmp(op, "walk") && h_nw == 6 && valid_is(1, 2) && valid_fs(3, 3) && h_i(h_w[2]) >= 0 &&
               h_i(h_w[2]) <= 300) {
      /* one agent through the real ref_interp_walk_agent */
      REF_AGENTS ag = interp->ref_agents;
      REF_INT id;
      REF_STATUS st;
      double p[3];
      p[0] = h_f(h_w[3]); p[1] = h_f(h_w[4]); p[2] = h_f(h_w[5]);
      if (REF_SUCCESS != ref_agents_push(ag, 0, 0, (REF_INT)h_i(h_w[1]), p, &id)) return 8;
      ref_agent_step(ag, id) = (REF_INT)h_i(h_w[2]);
      st = ref_interp_walk_agent(interp, id);
      fprintf(out, "%s", h_status(st));
      if (REF_SUCCESS == st) {
        fprintf(out, " %s %d %d", mode_name(ref_agent_mode(ag, id)), ref_agent_seed(ag, id), ref_agent_step(ag, id));
        if (REF_AGENT_ENCLOSING == ref_agent_mode(ag, id)) {
          int i;
          for (i = 0; i < 4; i++) { fputc(' ', out); h_pf(out, ref_agent_bary(ag, i, id)); }
        }
      }
      fputc('\n', out);
      if (REF_SUCCESS != ref_agents_remove(ag, id)) return 8;
    } else if (0 == strcmp(op, "locnode") && h_nw == 5 && valid_i(h_w[1]) && valid_fs(2, 3) && h_i(h_w[1]) >= 0) {
      /* the public ref_interp_locate_node: walk from the stored guess, else the tree candidates */
      REF_STATUS st;
      int c;
      for (c = 0; c < 3; c++) ref_node_xyz(ref_grid_node(to1), c, 0) = h_f(h_w[2 + c]);
      interp->cell[0] = (REF_INT)h_i(h_w[1]);
      interp->part[0] = 0;
      interp->agent_hired[0] = REF_FALSE;
      st = ref_interp_locate_node(interp, 0);
      fprintf(out, "%s", h_status(st));
      if (REF_SUCCESS == st) { fprintf(out, " %d", interp->cell[0]); print_bary(interp->bary); }
      fputc('\n', out);
      if (ref_agents_n(interp->ref_agents) > 0) { /* an error return leaves the agent queued */
        ref_agents_free(interp->ref_agents);
        if (REF_SUCCESS != ref_agents_create(&(interp->ref_agents), h_mpi)) return 9;
      }
    } else if (0 == strcmp(op, "locate") && h_nw >= 5 && (h_nw - 5) % 3 == 0 && valid_fs(1, h_nw - 1) &&
               h_nw <= 5 + 3 * 2000) {
      op_locate();
    } else if (0 == strcmp(op, "self") && h_nw == 6 && valid_fs(1, 5)) {
      op_self();
    } else {
      fputs("bad-op\n", out);
    }
  }
  drop_all();
  fflush(out);
  return 0;
}
