/* harness `par`: ownership guards (serial or MPI build, purely local) and the gather (MPI: one group per rank).
 *
 * guards (see lean/Drivers/Par.lean for the line formats): a real REF_GRID is built with ref_node_add,
 *   ref_node_part(ref_node,node) = p and ref_cell_add; `me` is installed as ref_mpi->id for the call;
 *   the REAL ref_cell_local_gem / ref_collapse_edge_local_cell / ref_smooth_local_cell_about (static, white-box) /
 *   ref_swap_local_cell are called.
 * gather: `gather_node np rbl N | K (global part x y z)*K | ...`   every rank builds a REF_NODE holding its group,
 *   ref_mpi->reduce_byte_limit = rbl, the REAL static ref_gather_node writes to a scratch FILE on rank 0 which is
 *   read back and printed.  `gather_cell np per | K (global part)*K C (g*per id)*C | ...` likewise with the REAL
 *   ref_cell_ncell + static ref_gather_cell (always_id, 32 bit, no pad).
 *   `gather_file np rbl ext N | K (global part x y z)*K CT (g g g id)*CT CQ (g g g g)*CQ | ...` builds a REF_GRID
 *   (tri + tet), calls the REAL ref_gather_by_extension to a file in the cwd and prints it back through the serial
 *   reader ref_import_by_extension on rank 0.
 *
 * White-box: ref_smooth.c and ref_gather.c are #included (whitebox=('ref_smooth','ref_gather')).
 * Under mpiexec only rank 0 reads the op lines (stdin or `--ops <file>`) and broadcasts them; only rank 0 prints.
 */
#include "h_proto.h"
#include <signal.h>
#include <unistd.h>
#ifdef HAVE_MPI
#include <mpi.h>
#endif

#include "ref_smooth.c"
#include "ref_gather.c"

#include "ref_collapse.h"
#include "ref_import.h"
#include "ref_swap.h"

static FILE *out;
static int me, np;
static REF_MPI ref_mpi;

static int is_int_tok(const char *s) {
  if (*s == '-') s++;
  if (!*s) return 0;
  for (; *s; s++)
    if (*s < '0' || *s > '9') return 0;
  return 1;
}
static int is_nat_tok(const char *s) { return *s != '-' && is_int_tok(s) && strlen(s) <= 9; }
static int is_hex16(const char *s) {
  int i;
  for (i = 0; s[i]; i++)
    if (!((s[i] >= '0' && s[i] <= '9') || (s[i] >= 'a' && s[i] <= 'f') || (s[i] >= 'A' && s[i] <= 'F'))) return 0;
  return i == 16;
}

/* ---- output line (rank 0) ---- */
static char *res;
static size_t res_n, res_cap;
static void r_reset(void) {
  res_n = 0;
  if (res) res[0] = 0;
}
static void r_put(const char *s) {
  size_t l = strlen(s);
  if (res_n + l + 2 > res_cap) {
    res_cap = 2 * (res_n + l + 2) + 64;
    res = (char *)realloc(res, res_cap);
  }
  if (res_n > 0) res[res_n++] = ' ';
  memcpy(res + res_n, s, l + 1);
  res_n += l;
}
static void r_ll(long long v) {
  char b[32];
  snprintf(b, sizeof b, "%lld", v);
  r_put(b);
}
static void r_dbl(double d) {
  char b[32];
  uint64_t u;
  if (d != d) {
    r_put("nan");
    return;
  }
  memcpy(&u, &d, 8);
  snprintf(b, sizeof b, "%016llx", (unsigned long long)u);
  r_put(b);
}

#define BAD 1
#define HANG 2

/* ------------------------------------------------------------------ guards */
/* parse `P p*P` at h_w[*k]; returns P or -1 */
static int parse_counted(int *k, int **vals) {
  int n, i;
  if (*k >= h_nw || !is_nat_tok(h_w[*k])) return -1;
  n = (int)h_i(h_w[*k]);
  if (*k + 1 + n > h_nw) return -1;
  *vals = (int *)calloc((size_t)n + 1, sizeof(int));
  for (i = 0; i < n; i++) {
    if (!is_nat_tok(h_w[*k + 1 + i])) {
      free(*vals);
      *vals = NULL;
      return -1;
    }
    (*vals)[i] = (int)h_i(h_w[*k + 1 + i]);
  }
  *k += 1 + n;
  return n;
}

/* parse `C node*(per*C)` at h_w[*k], nodes < nnode; adds the cells; 0 ok */
static int parse_cells(int *k, int per, int nnode, int exact_end, REF_CELL ref_cell) {
  int c, i, j;
  REF_INT nodes[REF_CELL_MAX_SIZE_PER], cell;
  if (*k >= h_nw || !is_nat_tok(h_w[*k])) return BAD;
  c = (int)h_i(h_w[*k]);
  if ((long long)*k + 1 + (long long)per * c > h_nw) return BAD;
  if (exact_end && *k + 1 + per * c != h_nw) return BAD;
  for (i = 0; i < per * c; i++)
    if (!is_nat_tok(h_w[*k + 1 + i]) || h_i(h_w[*k + 1 + i]) >= nnode) return BAD;
  for (i = 0; i < c; i++) {
    for (j = 0; j < per; j++) nodes[j] = (REF_INT)h_i(h_w[*k + 1 + per * i + j]);
    nodes[per] = 1; /* id column of tri/edg */
    if (REF_SUCCESS != ref_cell_add(ref_cell, nodes, &cell)) return BAD;
  }
  *k += 1 + per * c;
  return 0;
}

static int op_guard(const char *op) {
  REF_GRID ref_grid = NULL;
  REF_NODE ref_node;
  int k = 1, per = 0, nfix, fix[3] = {0, 0, 0}, i, nparts, *parts = NULL, rc = 0, saved_id;
  int is_gem = !strcmp(op, "local_gem"), is_smooth = !strcmp(op, "smooth_local");
  int is_swap = !strcmp(op, "swap_local"), is_collapse = !strcmp(op, "collapse_local");
  REF_BOOL answer = REF_FALSE;
  REF_STATUS st = REF_SUCCESS;
  if (is_gem || is_smooth) {
    if (h_nw < 2) return BAD;
    if (!strcmp(h_w[1], "tet")) per = 4;
    else if (!strcmp(h_w[1], "tri")) per = 3;
    else return BAD;
    k = 2;
  }
  nfix = is_smooth ? 2 : 3;
  if (k + nfix > h_nw) return BAD;
  for (i = 0; i < nfix; i++) {
    if (!is_nat_tok(h_w[k + i])) return BAD;
    fix[i] = (int)h_i(h_w[k + i]);
  }
  k += nfix;
  nparts = parse_counted(&k, &parts);
  if (nparts < 0) return BAD;
  if (fix[1] >= nparts || (!is_smooth && fix[2] >= nparts)) {
    free(parts);
    return BAD;
  }
  if (REF_SUCCESS != ref_grid_create(&ref_grid, ref_mpi)) {
    free(parts);
    return BAD;
  }
  ref_node = ref_grid_node(ref_grid);
  for (i = 0; i < nparts && !rc; i++) {
    REF_INT node;
    if (REF_SUCCESS != ref_node_add(ref_node, (REF_GLOB)i, &node) || node != i) rc = BAD;
    else ref_node_part(ref_node, node) = parts[i];
  }
  if (!rc) {
    if (is_gem || is_smooth) {
      rc = parse_cells(&k, per, nparts, 1, per == 4 ? ref_grid_tet(ref_grid) : ref_grid_tri(ref_grid));
    } else if (is_swap) {
      rc = parse_cells(&k, 3, nparts, 1, ref_grid_tri(ref_grid));
    } else {
      rc = parse_cells(&k, 4, nparts, 0, ref_grid_tet(ref_grid));
      if (!rc) rc = parse_cells(&k, 3, nparts, 1, ref_grid_tri(ref_grid));
    }
  }
  if (!rc) {
    /* ref_grid_create deep-copies ref_mpi: ref_node_owned reads the grid's copy */
    saved_id = ref_grid_mpi(ref_grid)->id;
    ref_grid_mpi(ref_grid)->id = fix[0];
    if (is_gem)
      st = ref_cell_local_gem(per == 4 ? ref_grid_tet(ref_grid) : ref_grid_tri(ref_grid), ref_node, fix[1], fix[2],
                              &answer);
    else if (is_smooth)
      st = ref_smooth_local_cell_about(per == 4 ? ref_grid_tet(ref_grid) : ref_grid_tri(ref_grid), ref_node, fix[1],
                                       &answer);
    else if (is_swap)
      st = ref_swap_local_cell(ref_grid, fix[1], fix[2], &answer);
    else if (is_collapse)
      st = ref_collapse_edge_local_cell(ref_grid, fix[1], fix[2], &answer);
    ref_grid_mpi(ref_grid)->id = saved_id;
    if (REF_SUCCESS != st) r_put(h_status((int)st));
    else r_put(answer ? "1" : "0");
  }
  ref_grid_free(ref_grid);
  free(parts);
  return rc;
}

/* ------------------------------------------------------------------ groups (one per rank) */
#define MAXG 64
static int g_lo[MAXG], g_hi[MAXG], ng, hdr_end;
static int split_groups(void) {
  int i;
  ng = 0;
  hdr_end = h_nw;
  for (i = 2; i < h_nw; i++) {
    if (0 == strcmp(h_w[i], "|")) {
      if (ng == 0) hdr_end = i;
      else g_hi[ng - 1] = i;
      if (ng >= MAXG) return 0;
      g_lo[ng] = i + 1;
      g_hi[ng] = h_nw;
      ng++;
    }
  }
  return 1;
}
#define GLEN(g) (g_hi[g] - g_lo[g])
#define GW(g, k) (h_w[g_lo[g] + (k)])
#define NHDR (hdr_end - 2)
#define HDR(k) (h_w[2 + (k)])

/* group g starts with `K (global part [x y z])*K`: validate (distinct globals); returns K or -1 */
static int check_nodes(int g, int with_xyz) {
  int rec = with_xyz ? 5 : 2, k, i, j;
  if (GLEN(g) < 1 || !is_nat_tok(GW(g, 0))) return -1;
  k = (int)h_i(GW(g, 0));
  if ((long long)1 + (long long)rec * k > GLEN(g)) return -1;
  for (i = 0; i < k; i++) {
    if (!is_nat_tok(GW(g, 1 + rec * i)) || !is_nat_tok(GW(g, 2 + rec * i))) return -1;
    if (with_xyz)
      for (j = 0; j < 3; j++)
        if (!is_hex16(GW(g, 3 + rec * i + j))) return -1;
    for (j = 0; j < i; j++)
      if (h_i(GW(g, 1 + rec * i)) == h_i(GW(g, 1 + rec * j))) return -1;
  }
  return k;
}

static int add_nodes(REF_NODE ref_node, int g, int with_xyz, int k) {
  int rec = with_xyz ? 5 : 2, i, j;
  for (i = 0; i < k; i++) {
    REF_INT node;
    if (REF_SUCCESS != ref_node_add(ref_node, (REF_GLOB)h_i(GW(g, 1 + rec * i)), &node)) return BAD;
    ref_node_part(ref_node, node) = (REF_INT)h_i(GW(g, 2 + rec * i));
    for (j = 0; j < 3; j++) ref_node_xyz(ref_node, j, node) = with_xyz ? h_f(GW(g, 3 + rec * i + j)) : 0.0;
  }
  return 0;
}

static int op_gather_node(void) {
  long long rbl, N;
  int g, k, rc = 0;
  REF_NODE ref_node = NULL;
  FILE *f = NULL;
  REF_STATUS st;
  REF_INT saved;
  if (NHDR != 2 || !is_int_tok(HDR(0)) || strlen(HDR(0)) > 11 || !is_nat_tok(HDR(1))) return BAD;
  rbl = h_i(HDR(0));
  N = h_i(HDR(1));
  if (N > 100000 || rbl > 2147483647LL || rbl < -2147483648LL) return BAD;
  for (g = 0; g < np; g++) {
    k = check_nodes(g, 1);
    if (k < 0 || GLEN(g) != 1 + 5 * k) return BAD;
  }
  /* chunk = MIN(N/np+1, rbl>0 ? rbl/32 : INT_MAX) == 0 with N > 0: the loop never advances */
  if (rbl > 0 && rbl / 32 == 0 && N > 0) return HANG;
  if (REF_SUCCESS != ref_node_create(&ref_node, ref_mpi)) return BAD;
  rc = add_nodes(ref_node, me, 1, (int)h_i(GW(me, 0)));
  if (!rc && REF_SUCCESS != ref_node_initialize_n_global(ref_node, (REF_GLOB)N)) rc = BAD;
  if (0 == me) {
    f = tmpfile();
    if (!f) rc = BAD;
  }
  if (!rc) {
    saved = ref_mpi->reduce_byte_limit;
    ref_mpi->reduce_byte_limit = (REF_INT)rbl;
    st = ref_gather_node(ref_node, REF_FALSE, 0, REF_FALSE, f);
    ref_mpi->reduce_byte_limit = saved;
    r_put(h_status((int)st));
    if (0 == me) {
      double d;
      fflush(f);
      rewind(f);
      while (1 == fread(&d, sizeof(d), 1, f)) r_dbl(d);
    }
  }
  if (f) fclose(f);
  ref_node_free(ref_node);
  return rc; /* rc is the same on every rank except for tmpfile failure (not expected) */
}

/* validate cells `C (g*per id)*C` of group g starting at token k0; every g stored in the group's node list */
static int check_cells(int g, int k0, int per, int nnodes, int rec, int *ncell) {
  int c, i, j, l;
  if (k0 >= GLEN(g) || !is_nat_tok(GW(g, k0))) return BAD;
  c = (int)h_i(GW(g, k0));
  if ((long long)k0 + 1 + (long long)(per + 1) * c > GLEN(g)) return BAD;
  for (i = 0; i < c; i++) {
    for (j = 0; j < per; j++) {
      const char *t = GW(g, k0 + 1 + (per + 1) * i + j);
      int found = 0;
      if (!is_nat_tok(t)) return BAD;
      for (l = 0; l < nnodes; l++)
        if (h_i(GW(g, 1 + rec * l)) == h_i(t)) found = 1;
      if (!found) return BAD;
    }
    {
      const char *t = GW(g, k0 + 1 + (per + 1) * i + per);
      if (!is_int_tok(t) || strlen(t) > 11 || h_i(t) > 2147483647LL || h_i(t) < -2147483648LL) return BAD;
    }
  }
  *ncell = c;
  return 0;
}

static int add_cells(REF_NODE ref_node, REF_CELL ref_cell, int g, int k0, int per, int c) {
  int i, j;
  for (i = 0; i < c; i++) {
    REF_INT nodes[REF_CELL_MAX_SIZE_PER], cell;
    for (j = 0; j < per; j++)
      if (REF_SUCCESS != ref_node_local(ref_node, (REF_GLOB)h_i(GW(g, k0 + 1 + (per + 1) * i + j)), &nodes[j]))
        return BAD;
    nodes[per] = (REF_INT)h_i(GW(g, k0 + 1 + (per + 1) * i + per));
    if (REF_SUCCESS != ref_cell_add(ref_cell, nodes, &cell)) return BAD;
  }
  return 0;
}

static int op_gather_cell(void) {
  int per, g, k, c = 0, rc = 0;
  REF_NODE ref_node = NULL;
  REF_CELL ref_cell = NULL;
  FILE *f = NULL;
  REF_STATUS st;
  REF_LONG ncell = -1;
  if (NHDR != 1 || !is_nat_tok(HDR(0))) return BAD;
  per = (int)h_i(HDR(0));
  if (per < 2 || per > 4) return BAD;
  for (g = 0; g < np; g++) {
    k = check_nodes(g, 0);
    if (k < 0) return BAD;
    if (check_cells(g, 1 + 2 * k, per, k, 2, &c)) return BAD;
    if (GLEN(g) != 1 + 2 * k + 1 + (per + 1) * c) return BAD;
  }
  if (REF_SUCCESS != ref_node_create(&ref_node, ref_mpi)) return BAD;
  if (REF_SUCCESS != ref_cell_create(&ref_cell, per == 4 ? REF_CELL_TET : (per == 3 ? REF_CELL_TRI : REF_CELL_EDG))) {
    ref_node_free(ref_node);
    return BAD;
  }
  k = (int)h_i(GW(me, 0));
  rc = add_nodes(ref_node, me, 0, k);
  if (!rc) rc = add_cells(ref_node, ref_cell, me, 1 + 2 * k, per, (int)h_i(GW(me, 1 + 2 * k)));
  if (0 == me) {
    f = tmpfile();
    if (!f) rc = BAD;
  }
  if (!rc) {
    st = ref_cell_ncell(ref_cell, ref_node, &ncell);
    if (REF_SUCCESS == st)
      st = ref_gather_cell(ref_node, ref_cell, REF_FALSE, REF_TRUE, REF_FALSE, REF_FALSE, REF_FALSE, 0, REF_FALSE, f);
    r_put(h_status((int)st));
    if (REF_SUCCESS == st && 0 == me) {
      int v;
      r_ll(ncell);
      fflush(f);
      rewind(f);
      while (1 == fread(&v, sizeof(v), 1, f)) r_ll(v);
    }
  }
  if (f) fclose(f);
  ref_cell_free(ref_cell);
  ref_node_free(ref_node);
  return rc;
}


/* ---- gather_file: the REAL ref_gather_by_extension to a .meshb in the cwd, read back by a minimal reader ---- */
static int rd_i32(FILE *f, long long *v) {
  int x;
  if (1 != fread(&x, 4, 1, f)) return 0;
  *v = x;
  return 1;
}
/* prints `N xyz.. ntri recs.. ntet recs..` of a version-2 meshb (int32 positions and ints, float64 coordinates) */
static int dump_meshb(const char *fname) {
  FILE *f = fopen(fname, "rb");
  long long code, version, kw, next, n, dim = 3, v;
  long long ntri = 0, ntet = 0, nnode = 0;
  char *tri = NULL, *tet = NULL, *xyz = NULL;
  size_t tri_n = 0, tet_n = 0, xyz_n = 0;
  int ok = 0, i, j;
  if (!f) return BAD;
  if (!rd_i32(f, &code) || !rd_i32(f, &version) || code != 1 || version != 2) goto done;
  for (;;) {
    if (!rd_i32(f, &kw)) goto done;
    if (!rd_i32(f, &next)) goto done;
    if (54 == kw) break;
    if (3 == kw) {
      if (!rd_i32(f, &dim)) goto done;
    } else if (4 == kw) {
      if (!rd_i32(f, &nnode) || 3 != dim) goto done;
      for (i = 0; i < nnode; i++) {
        double d[3];
        char b[80];
        if (3 != fread(d, 8, 3, f) || !rd_i32(f, &v)) goto done;
        for (j = 0; j < 3; j++) {
          uint64_t u;
          memcpy(&u, &d[j], 8);
          if (d[j] != d[j]) snprintf(b, sizeof b, " nan");
          else snprintf(b, sizeof b, " %016llx", (unsigned long long)u);
          xyz = (char *)realloc(xyz, xyz_n + strlen(b) + 1);
          memcpy(xyz + xyz_n, b, strlen(b) + 1);
          xyz_n += strlen(b);
        }
      }
    } else if (6 == kw || 8 == kw) {
      int per = (6 == kw) ? 4 : 5;
      char **dst = (6 == kw) ? &tri : &tet;
      size_t *dn = (6 == kw) ? &tri_n : &tet_n;
      if (!rd_i32(f, &n)) goto done;
      if (6 == kw) ntri = n; else ntet = n;
      for (i = 0; i < n * per; i++) {
        char b[32];
        if (!rd_i32(f, &v)) goto done;
        snprintf(b, sizeof b, " %lld", v);
        *dst = (char *)realloc(*dst, *dn + strlen(b) + 1);
        memcpy(*dst + *dn, b, strlen(b) + 1);
        *dn += strlen(b);
      }
    } else {
      if (next <= 0 || 0 != fseek(f, (long)next, SEEK_SET)) goto done;
    }
  }
  ok = 1;
  r_ll(nnode);
  if (xyz) r_put(xyz + 1);
  r_ll(ntri);
  if (tri) r_put(tri + 1);
  r_ll(ntet);
  if (tet) r_put(tet + 1);
done:
  fclose(f);
  free(xyz);
  free(tri);
  free(tet);
  return ok ? 0 : BAD;
}

static int op_gather_file(void) {
  long long rbl, N;
  int g, k, ct = 0, cq = 0, rc = 0;
  REF_GRID ref_grid = NULL;
  REF_NODE ref_node;
  REF_STATUS st;
  char fname[64];
  if (NHDR != 2 || !is_int_tok(HDR(0)) || strlen(HDR(0)) > 11 || !is_nat_tok(HDR(1))) return BAD;
  rbl = h_i(HDR(0));
  N = h_i(HDR(1));
  if (N > 100000 || rbl > 2147483647LL || rbl < -2147483648LL) return BAD;
  for (g = 0; g < np; g++) {
    k = check_nodes(g, 1);
    if (k < 0) return BAD;
    if (check_cells(g, 1 + 5 * k, 3, k, 5, &ct)) return BAD;
    if (check_cells(g, 1 + 5 * k + 1 + 4 * ct, 4, k, 5, &cq)) return BAD;
    if (GLEN(g) != 1 + 5 * k + 1 + 4 * ct + 1 + 5 * cq) return BAD;
  }
  if (rbl > 0 && rbl / 32 == 0 && N > 0) return HANG;
  if (REF_SUCCESS != ref_grid_create(&ref_grid, ref_mpi)) return BAD;
  ref_node = ref_grid_node(ref_grid);
  k = (int)h_i(GW(me, 0));
  ct = (int)h_i(GW(me, 1 + 5 * k));
  rc = add_nodes(ref_node, me, 1, k);
  if (!rc && REF_SUCCESS != ref_node_initialize_n_global(ref_node, (REF_GLOB)N)) rc = BAD;
  if (!rc) rc = add_cells(ref_node, ref_grid_tri(ref_grid), me, 1 + 5 * k, 3, ct);
  if (!rc) rc = add_cells(ref_node, ref_grid_tet(ref_grid), me, 1 + 5 * k + 1 + 4 * ct, 4, (int)h_i(GW(me, 1 + 5 * k + 1 + 4 * ct)));
  snprintf(fname, sizeof fname, "h_par_%d.meshb", (int)getppid());
  if (!rc) {
    ref_grid_mpi(ref_grid)->reduce_byte_limit = (REF_INT)rbl;
    st = ref_gather_by_extension(ref_grid, fname);
    r_put(h_status((int)st));
    if (REF_SUCCESS == st && 0 == me) rc = dump_meshb(fname);
    if (0 == me) remove(fname);
  }
  ref_grid_free(ref_grid);
  return rc;
}

/* tokenise h_line in place (all ranks) */
static void tokenise(void) {
  char *p;
  h_nw = 0;
  for (p = strtok(h_line, " \t\r\n"); p && h_nw < H_MAXW; p = strtok(NULL, " \t\r\n")) h_w[h_nw++] = p;
}

static void on_alarm(int sig) {
  (void)sig;
  _exit(97);
}

int main(int argc, char *argv[]) {
  int fd;
  FILE *in = stdin;
#ifdef HAVE_MPI
  MPI_Init(&argc, &argv);
#endif
  if (REF_SUCCESS != ref_mpi_create(&ref_mpi)) return 3;
  me = ref_mpi_rank(ref_mpi);
  np = ref_mpi_n(ref_mpi);
  if (argc >= 3 && 0 == strcmp(argv[1], "--ops") && 0 == me) {
    in = fopen(argv[2], "r");
    if (!in) return 4;
  }
  fd = dup(1);
  out = fdopen(fd, "w");
  if (!freopen("/dev/null", "w", stdout)) return 3;
  signal(SIGALRM, on_alarm);
  for (;;) {
    int len = -1, rc;
    const char *op;
    if (0 == me) {
      for (;;) {
        char *p;
        if (!fgets(h_line, sizeof(h_line), in)) {
          len = -1;
          break;
        }
        p = h_line;
        while (*p == ' ' || *p == '\t') p++;
        if (*p == '#' || *p == '\n' || *p == '\r' || *p == 0) continue;
        len = (int)strlen(h_line);
        break;
      }
    }
#ifdef HAVE_MPI
    MPI_Bcast(&len, 1, MPI_INT, 0, MPI_COMM_WORLD);
    if (len < 0) break;
    MPI_Bcast(h_line, len + 1, MPI_CHAR, 0, MPI_COMM_WORLD);
#else
    if (len < 0) break;
#endif
    tokenise();
    if (h_nw == 0) continue;
    op = h_w[0];
    r_reset();
    r_put("");
    r_reset();
    alarm(20);
    if (!strcmp(op, "local_gem") || !strcmp(op, "smooth_local") || !strcmp(op, "swap_local") ||
        !strcmp(op, "collapse_local")) {
      rc = op_guard(op);
    } else if (h_nw < 2 || !is_nat_tok(h_w[1]) || h_i(h_w[1]) != np || !split_groups() || ng != np) {
      rc = BAD;
    } else if (!strcmp(op, "gather_node")) rc = op_gather_node();
    else if (!strcmp(op, "gather_cell")) rc = op_gather_cell();
    else if (!strcmp(op, "gather_file")) rc = op_gather_file();
    else rc = BAD;
    alarm(0);
    if (0 == me) {
      if (rc == BAD) fputs("bad-op\n", out);
      else if (rc == HANG) fputs("hang\n", out);
      else fprintf(out, "%s\n", res);
      fflush(out);
    }
  }
  fclose(out);
  ref_mpi_free(ref_mpi);
#ifdef HAVE_MPI
  MPI_Finalize();
#endif
  return 0;
}
