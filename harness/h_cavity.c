/* harness `cavity`: the cavity machine of ref_cavity.c on grids built in-process.
   White-box: ref_cavity.c is included so that the static ref_cavity_verify_face_manifold /
   ref_cavity_verify_seg_manifold can be called directly (the object ref_cavity.o is left out of the link).
   One output line per op on `out`; the library's own printf diagnostics go to /dev/null. */
#include <unistd.h>

#include "h_proto.h"
#include "ref_cavity.c"
#include "ref_validation.h"

static FILE *out;
static REF_MPI ref_mpi;
static REF_GRID ref_grid;
static REF_CAVITY ref_cavity;
static REF_GLOB next_global;

#define NODE_LIMIT 200000

static int is_op(const char *op, int nw) { return 0 == strcmp(h_w[0], op) && h_nw == nw; }

static int is_int(const char *s) {
  if ('-' == *s) s++;
  if (!*s) return 0;
  for (; *s; s++) if (*s < '0' || *s > '9') return 0;
  return 1;
}
static int is_hex16(const char *s) {
  int n = 0;
  for (; *s; s++, n++) if (!((*s >= '0' && *s <= '9') || (*s >= 'a' && *s <= 'f') || (*s >= 'A' && *s <= 'F'))) return 0;
  return 16 == n;
}
/* every argument is a decimal integer (node: 16 hex digits; reset: the word twod) */
static int args_ok(void) {
  int i;
  if (0 == strcmp(h_w[0], "reset")) return 1;
  if (0 == strcmp(h_w[0], "valid3") || 0 == strcmp(h_w[0], "valid2")) {
    long long nn;
    if (h_nw < 4 || !is_int(h_w[1]) || !is_int(h_w[2]) || !is_int(h_w[3])) return 0;
    nn = h_i(h_w[1]);
    if (nn < 0 || nn > NODE_LIMIT) return 0;
    for (i = 4; i < h_nw; i++)
      if (i < 4 + 3 * nn ? !is_hex16(h_w[i]) : !is_int(h_w[i])) return 0;
    return 1;
  }
  for (i = 1; i < h_nw; i++)
    if (0 == strcmp(h_w[0], "node") ? !is_hex16(h_w[i]) : !is_int(h_w[i])) return 0;
  return 1;
}

static void fresh_cavity(void) {
  if (ref_cavity) ref_cavity_free(ref_cavity);
  ref_cavity = NULL;
  if (REF_SUCCESS != ref_cavity_create(&ref_cavity)) exit(3);
  ref_cavity_form_empty(ref_cavity, ref_grid, REF_EMPTY);
}

static void reset(int twod) {
  if (ref_cavity) ref_cavity_free(ref_cavity);
  ref_cavity = NULL;
  if (ref_grid) ref_grid_free(ref_grid);
  ref_grid = NULL;
  if (REF_SUCCESS != ref_grid_create(&ref_grid, ref_mpi)) exit(3);
  ref_grid_twod(ref_grid) = twod ? REF_TRUE : REF_FALSE;
  next_global = 0;
  fresh_cavity();
}

static int node_ok(long long v) { return v >= 0 && v < NODE_LIMIT && ref_node_valid(ref_grid_node(ref_grid), (REF_INT)v); }

static void st_line(REF_STATUS s) { fprintf(out, "%s %d\n", h_status(s), (int)ref_cavity_state(ref_cavity)); }

static void dump_chain(REF_INT head, REF_INT *x2n, REF_INT max) {
  REF_INT i = head, guard = 0;
  int first = 1;
  while (REF_EMPTY != i && guard <= max) {
    fprintf(out, "%s%d", first ? "" : ",", i);
    first = 0;
    i = x2n[1 + 3 * i];
    guard++;
  }
  if (first) fputc('-', out);
}

static void dump_list(REF_LIST l) {
  REF_INT i;
  if (0 == ref_list_n(l)) fputc('-', out);
  for (i = 0; i < ref_list_n(l); i++) fprintf(out, "%s%d", i ? "," : "", ref_list_value(l, i));
}

static void cav_dump(void) {
  REF_INT i;
  fprintf(out, "%d %d %d %d %d | ", (int)ref_cavity_state(ref_cavity), ref_cavity_node(ref_cavity),
          ref_cavity_surf_node(ref_cavity), ref_cavity_nface(ref_cavity), ref_cavity_maxface(ref_cavity));
  for (i = 0; i < ref_cavity_maxface(ref_cavity); i++) {
    if (i) fputc(' ', out);
    if (REF_EMPTY == ref_cavity_f2n(ref_cavity, 0, i)) fputc('-', out);
    else fprintf(out, "%d,%d,%d", ref_cavity_f2n(ref_cavity, 0, i), ref_cavity_f2n(ref_cavity, 1, i),
                 ref_cavity_f2n(ref_cavity, 2, i));
  }
  fprintf(out, " | ");
  dump_chain(ref_cavity_blankface(ref_cavity), ref_cavity->f2n, ref_cavity_maxface(ref_cavity));
  fprintf(out, " | %d %d | ", ref_cavity_nseg(ref_cavity), ref_cavity_maxseg(ref_cavity));
  for (i = 0; i < ref_cavity_maxseg(ref_cavity); i++) {
    if (i) fputc(' ', out);
    if (REF_EMPTY == ref_cavity_s2n(ref_cavity, 0, i)) fputc('-', out);
    else fprintf(out, "%d,%d,%d", ref_cavity_s2n(ref_cavity, 0, i), ref_cavity_s2n(ref_cavity, 1, i),
                 ref_cavity_s2n(ref_cavity, 2, i));
  }
  fprintf(out, " | ");
  dump_chain(ref_cavity_blankseg(ref_cavity), ref_cavity->s2n, ref_cavity_maxseg(ref_cavity));
  fprintf(out, " | ");
  dump_list(ref_cavity_tet_list(ref_cavity));
  fprintf(out, " | ");
  dump_list(ref_cavity_tri_list(ref_cavity));
  fprintf(out, " | %d %d %d %d\n", ref_cavity->split_node0, ref_cavity->split_node1, ref_cavity->collapse_node0,
          ref_cavity->collapse_node1);
}

static int cmp_rows(const void *a, const void *b) {
  const REF_INT *x = (const REF_INT *)a, *y = (const REF_INT *)b;
  int k;
  for (k = 0; k < 4; k++) {
    if (x[k] < y[k]) return -1;
    if (x[k] > y[k]) return 1;
  }
  return 0;
}

/* valid cells of one store, rows of `per` ints padded to 4, sorted lexicographically */
static void dump_cells(REF_CELL ref_cell, int per) {
  REF_INT cell, nodes[REF_CELL_MAX_SIZE_PER], n = 0, k;
  REF_INT *rows = (REF_INT *)malloc(sizeof(REF_INT) * 4 * (size_t)(ref_cell_n(ref_cell) + 1));
  each_ref_cell_valid_cell_with_nodes(ref_cell, cell, nodes) {
    for (k = 0; k < 4; k++) rows[4 * n + k] = k < per ? nodes[k] : 0;
    n++;
  }
  qsort(rows, (size_t)n, 4 * sizeof(REF_INT), cmp_rows);
  if (0 == n) fputc('-', out);
  for (cell = 0; cell < n; cell++) {
    if (cell) fputc(' ', out);
    for (k = 0; k < per; k++) fprintf(out, "%s%d", k ? "," : "", rows[4 * cell + k]);
  }
  free(rows);
}

static void grid_dump(void) {
  REF_NODE ref_node = ref_grid_node(ref_grid);
  REF_INT node;
  int first = 1;
  dump_cells(ref_grid_tet(ref_grid), 4);
  fprintf(out, " | ");
  dump_cells(ref_grid_tri(ref_grid), 4);
  fprintf(out, " | ");
  dump_cells(ref_grid_edg(ref_grid), 3);
  fprintf(out, " | ");
  each_ref_node_valid_node(ref_node, node) {
    fprintf(out, "%s%d", first ? "" : ",", node);
    first = 0;
  }
  if (first) fputc('-', out);
  fputc('\n', out);
}

/* independent C evaluation of the combinatorial orientation clause (not refine code): every unordered face has
   signed multiplicity 0, tet faces counted with the parity of their orientation, tris with the opposite sign */
static int sort3_sign(const REF_INT *f, REF_INT *k) {
  REF_INT a = f[0], b = f[1], c = f[2], t;
  int s = 1;
  if (a > b) { t = a; a = b; b = t; s = -s; }
  if (b > c) { t = b; b = c; c = t; s = -s; }
  if (a > b) { t = a; a = b; b = t; s = -s; }
  k[0] = a; k[1] = b; k[2] = c;
  return s;
}
static int orient_ok(REF_GRID g) {
  REF_CELL tet = ref_grid_tet(g), tri = ref_grid_tri(g);
  REF_INT nf = 4 * ref_cell_n(tet) + ref_cell_n(tri), n = 0, cell, nodes[REF_CELL_MAX_SIZE_PER], i, j, f[3];
  REF_INT *key = (REF_INT *)malloc(sizeof(REF_INT) * 3 * (size_t)(nf + 1));
  int *sgn = (int *)malloc(sizeof(int) * (size_t)(nf + 1)), ok = 1;
  each_ref_cell_valid_cell_with_nodes(tet, cell, nodes) {
    for (i = 0; i < 4; i++) {
      for (j = 0; j < 3; j++) f[j] = ref_cell_f2n(tet, j, i, cell);
      sgn[n] = sort3_sign(f, &key[3 * n]);
      n++;
    }
  }
  each_ref_cell_valid_cell_with_nodes(tri, cell, nodes) {
    sgn[n] = -sort3_sign(nodes, &key[3 * n]);
    n++;
  }
  for (i = 0; i < n && ok; i++) {
    int sum = 0;
    for (j = 0; j < n; j++)
      if (key[3 * i] == key[3 * j] && key[3 * i + 1] == key[3 * j + 1] && key[3 * i + 2] == key[3 * j + 2]) sum += sgn[j];
    if (0 != sum) ok = 0;
  }
  free(key);
  free(sgn);
  return ok;
}

/* `valid3 nnode ntet ntri x y z ... | n0 n1 n2 n3 ... | n0 n1 n2 id ...` all on one line (without the bars):
   refine's own validation of that mesh */
static void valid_op(int dim) {
  REF_GRID g = NULL;
  REF_NODE ref_node;
  long long nn, nc, nb;
  int i, k, w;
  REF_INT nodes[REF_CELL_MAX_SIZE_PER], node, cell;
  int vol_ok = 1, face_ok, bnd_ok = 1, used_ok, range_ok = 1;
  if (h_nw < 4) { fputs("bad-op\n", out); return; }
  nn = h_i(h_w[1]); nc = h_i(h_w[2]); nb = h_i(h_w[3]);
  if (nn < 0 || nc < 0 || nb < 0 || nn > NODE_LIMIT ||
      h_nw != 4 + 3 * nn + (dim == 3 ? 4 * nc + 4 * nb : 4 * nc + 3 * nb)) { fputs("bad-op\n", out); return; }
  w = 4 + 3 * (int)nn;
  for (i = w; i < h_nw; i++) {
    /* ids (every 4th of tri rows / 3rd of edg rows) are not node indices */
    (void)i;
  }
  if (REF_SUCCESS != ref_grid_create(&g, ref_mpi)) exit(3);
  ref_grid_twod(g) = dim == 2 ? REF_TRUE : REF_FALSE;
  ref_node = ref_grid_node(g);
  for (i = 0; i < nn; i++) {
    if (REF_SUCCESS != ref_node_add(ref_node, (REF_GLOB)i, &node)) exit(3);
    for (k = 0; k < 3; k++) ref_node_xyz(ref_node, k, node) = h_f(h_w[4 + 3 * i + k]);
  }
  for (i = 0; i < nc && range_ok; i++) {
    for (k = 0; k < 4; k++) nodes[k] = (REF_INT)h_i(h_w[w + 4 * i + k]);
    for (k = 0; k < (dim == 3 ? 4 : 3); k++) if (nodes[k] < 0 || nodes[k] >= nn) range_ok = 0;
    if (range_ok && REF_SUCCESS != ref_cell_add(dim == 3 ? ref_grid_tet(g) : ref_grid_tri(g), nodes, &cell)) exit(3);
  }
  w += 4 * (int)nc;
  for (i = 0; i < nb && range_ok; i++) {
    int per = dim == 3 ? 4 : 3;
    for (k = 0; k < per; k++) nodes[k] = (REF_INT)h_i(h_w[w + per * i + k]);
    for (k = 0; k < per - 1; k++) if (nodes[k] < 0 || nodes[k] >= nn) range_ok = 0;
    if (range_ok && REF_SUCCESS != ref_cell_add(dim == 3 ? ref_grid_tri(g) : ref_grid_edg(g), nodes, &cell)) exit(3);
  }
  if (!range_ok) {
    fputs("range=bad\n", out);
    ref_grid_free(g);
    return;
  }
  if (dim == 3) {
    vol_ok = (REF_SUCCESS == ref_validation_cell_volume(g));
    face_ok = (REF_SUCCESS == ref_validation_cell_face(g));
    bnd_ok = (REF_SUCCESS == ref_validation_boundary_manifold(g));
  } else {
    vol_ok = (REF_SUCCESS == ref_validation_twod_orientation(g));
    face_ok = 1;
  }
  if (dim == 2) {
    fprintf(out, "range=ok vol=%s\n", vol_ok ? "ok" : "bad");
    ref_grid_free(g);
    return;
  }
  used_ok = (REF_SUCCESS == ref_validation_unused_node(g));
  fprintf(out, "range=ok vol=%s face=%s bnd=%s used=%s orient=%s\n", vol_ok ? "ok" : "bad", face_ok ? "ok" : "bad",
          bnd_ok ? "ok" : "bad", used_ok ? "ok" : "bad", orient_ok(g) ? "ok" : "bad");
  ref_grid_free(g);
}

int main(void) {
  out = fdopen(dup(1), "w");
  if (!out || !freopen("/dev/null", "w", stdout)) return 3;
  if (REF_SUCCESS != ref_mpi_create(&ref_mpi)) return 3;
  reset(0);
  while (h_next(stdin)) {
    const char *op = h_w[0];
    REF_NODE ref_node = ref_grid_node(ref_grid);
    if (!args_ok()) { fputs("bad-op\n", out); continue; }
    if (is_op("reset", 1) || is_op("reset", 2)) {
      reset(h_nw == 2 && 0 == strcmp(h_w[1], "twod"));
      fputs("ok\n", out);
    } else if (is_op("node", 4)) {
      REF_INT node = REF_EMPTY;
      int k;
      if (next_global >= NODE_LIMIT) { fputs("bad-op\n", out); continue; }
      if (REF_SUCCESS != ref_node_add(ref_node, next_global, &node)) exit(3);
      next_global++;
      for (k = 0; k < 3; k++) ref_node_xyz(ref_node, k, node) = h_f(h_w[1 + k]);
      fprintf(out, "ok %d\n", node);
    } else if (is_op("ghost", 2)) {
      long long v = h_i(h_w[1]);
      if (!node_ok(v)) { fputs("bad-op\n", out); continue; }
      ref_node_part(ref_node, (REF_INT)v) = 1;
      fputs("ok\n", out);
    } else if (is_op("tet", 5) || is_op("tri", 5) || is_op("edg", 4)) {
      REF_INT nodes[REF_CELL_MAX_SIZE_PER], cell = REF_EMPTY;
      int per = ('t' == op[0] && 'e' == op[1]) ? 4 : ('t' == op[0] ? 3 : 2), k, j, good = 1;
      REF_CELL ref_cell = (4 == per) ? ref_grid_tet(ref_grid) : (3 == per ? ref_grid_tri(ref_grid) : ref_grid_edg(ref_grid));
      for (k = 0; k < h_nw - 1; k++) nodes[k] = (REF_INT)h_i(h_w[1 + k]);
      for (k = 0; k < per; k++) {
        if (!node_ok(h_i(h_w[1 + k]))) good = 0;
        for (j = 0; j < k; j++) if (nodes[j] == nodes[k]) good = 0;
      }
      if (!good) { fputs("bad-op\n", out); continue; }
      if (REF_SUCCESS != ref_cell_add(ref_cell, nodes, &cell)) exit(3);
      fprintf(out, "ok %d\n", cell);
    } else if (is_op("new", 1)) {
      fresh_cavity();
      fputs("ok\n", out);
    } else if (is_op("form", 2)) {
      long long v = h_i(h_w[1]);
      if (v < -1 || v >= NODE_LIMIT) { fputs("bad-op\n", out); continue; }
      st_line(ref_cavity_form_empty(ref_cavity, ref_grid, (REF_INT)v));
    } else if (is_op("surf_node", 2)) {
      long long v = h_i(h_w[1]);
      if (v < -1 || v >= NODE_LIMIT) { fputs("bad-op\n", out); continue; }
      ref_cavity_surf_node(ref_cavity) = (REF_INT)v;
      fputs("ok\n", out);
    } else if (is_op("set_state", 2)) {
      long long v = h_i(h_w[1]);
      if (v < 0 || v > 6) { fputs("bad-op\n", out); continue; }
      ref_cavity_state(ref_cavity) = (REF_CAVITY_STATE)v;
      fputs("ok\n", out);
    } else if (is_op("form_split", 4)) {
      long long a = h_i(h_w[1]), b = h_i(h_w[2]), c = h_i(h_w[3]);
      if (!node_ok(a) || !node_ok(b) || !node_ok(c)) { fputs("bad-op\n", out); continue; }
      fresh_cavity();
      st_line(ref_cavity_form_edge_split(ref_cavity, ref_grid, (REF_INT)a, (REF_INT)b, (REF_INT)c));
    } else if (is_op("form_collapse", 3)) {
      long long a = h_i(h_w[1]), b = h_i(h_w[2]);
      if (!node_ok(a) || !node_ok(b)) { fputs("bad-op\n", out); continue; }
      fresh_cavity();
      st_line(ref_cavity_form_edge_collapse(ref_cavity, ref_grid, (REF_INT)a, (REF_INT)b));
    } else if (is_op("add_tet", 2)) {
      long long c = h_i(h_w[1]);
      if (c < -1 || c > NODE_LIMIT) { fputs("bad-op\n", out); continue; }
      st_line(ref_cavity_add_tet(ref_cavity, (REF_INT)c));
    } else if (is_op("add_tri", 2)) {
      long long c = h_i(h_w[1]);
      if (c < -1 || c > NODE_LIMIT) { fputs("bad-op\n", out); continue; }
      st_line(ref_cavity_add_tri(ref_cavity, (REF_INT)c));
    } else if (is_op("insert_face", 4)) {
      REF_INT nodes[3];
      long long a = h_i(h_w[1]), b = h_i(h_w[2]), c = h_i(h_w[3]);
      if (a < 0 || b < 0 || c < 0 || a >= NODE_LIMIT || b >= NODE_LIMIT || c >= NODE_LIMIT) { fputs("bad-op\n", out); continue; }
      nodes[0] = (REF_INT)a; nodes[1] = (REF_INT)b; nodes[2] = (REF_INT)c;
      st_line(ref_cavity_insert_face(ref_cavity, nodes));
    } else if (is_op("insert_seg", 4)) {
      REF_INT nodes[3];
      long long a = h_i(h_w[1]), b = h_i(h_w[2]), c = h_i(h_w[3]);
      if (a < 0 || b < 0 || a >= NODE_LIMIT || b >= NODE_LIMIT || c < -1000 || c > 1000) { fputs("bad-op\n", out); continue; }
      nodes[0] = (REF_INT)a; nodes[1] = (REF_INT)b; nodes[2] = (REF_INT)c;
      st_line(ref_cavity_insert_seg(ref_cavity, nodes));
    } else if (is_op("find_face", 4)) {
      REF_INT nodes[3], face = REF_EMPTY;
      REF_BOOL reversed = REF_FALSE;
      REF_STATUS s;
      nodes[0] = (REF_INT)h_i(h_w[1]); nodes[1] = (REF_INT)h_i(h_w[2]); nodes[2] = (REF_INT)h_i(h_w[3]);
      s = ref_cavity_find_face(ref_cavity, nodes, &face, &reversed);
      if (REF_SUCCESS == s) fprintf(out, "ok %d %d\n", face, reversed ? 1 : 0);
      else fprintf(out, "%s\n", h_status(s));
    } else if (is_op("verify", 1)) {
      REF_STATUS s0 = ref_cavity_verify_face_manifold(ref_cavity);
      int st0 = (int)ref_cavity_state(ref_cavity);
      REF_STATUS s1 = ref_cavity_verify_seg_manifold(ref_cavity);
      fprintf(out, "%s %d %s %d\n", h_status(s0), st0, h_status(s1), (int)ref_cavity_state(ref_cavity));
    } else if (is_op("visible", 1)) {
      if (!node_ok(ref_cavity_node(ref_cavity))) { fputs("bad-op\n", out); continue; }
      st_line(ref_cavity_check_visible(ref_cavity));
    } else if (is_op("replace", 1)) {
      st_line(ref_cavity_replace(ref_cavity));
    } else if (is_op("dump", 1)) {
      cav_dump();
    } else if (is_op("grid", 1)) {
      grid_dump();
    } else if (0 == strcmp(op, "valid3")) {
      valid_op(3);
    } else if (0 == strcmp(op, "valid2")) {
      valid_op(2);
    } else {
      fputs("bad-op\n", out);
    }
  }
  fflush(out);
  return 0;
}
