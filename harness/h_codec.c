/* harness `codec`: the real libMeshb (.meshb / .solb) writers and readers of refine (C08, C09, C20)

   ops (one output line each; `-` stands for an empty byte string / empty list)
     write_meshb V TWOD n NS {-|X Y Z}*NS {c GROUP NC int*}* [g NG {TYPE ID GREF NODE P0 P1}*NG] [b HEX]
         build a REF_GRID through the public API (NS node slots, `-` = slot removed again), set
         meshb_version=V, call ref_export_by_extension("*.meshb")            -> ok HEX | <status>
     read_meshb HEX        ref_import_meshb (static, white-box include)     -> ok <dump> | <status>
     rt_meshb ...          same arguments as write_meshb: export, then ref_import_meshb of that file -> ok <dump>
     write_solb V TWOD NN {GLOBAL}*NN LDIM {X}*(NN*LDIM)   ref_gather_scalar_by_extension(".solb") -> ok HEX
     write_metric V TWOD NN {GLOBAL}*NN {M}*(NN*6)         ref_gather_metric(".solb")              -> ok HEX
     read_solb NN HEX      grid with NN nodes (global i = local i), ref_part_scalar(".solb")
                                                                            -> ok LDIM {X}*(NN*LDIM) | <status>
     read_metric NN HEX    same grid, ref_part_metric(".solb")               -> ok {M}*(NN*6) | <status>
     robust_name W NAME    suffix dispatch of ref_import_by_extension (W=0), ref_export_by_extension (1),
                           ref_part_metric (2) on the file name NAME (must start with hcn_; need not exist)
     robust_KIND ...       as read_KIND, or (robust_translate HEX) ref_import_by_extension +
                           ref_export_by_extension like `ref translate`; prints only `returned` when the reader came
                           back with any status (the C20 oracle)
   Every reader op runs in a forked child with alarm(); a child that dies prints `crash <why>`, one that
   is still running after the limit prints `timeout`; a robust_ op whose child touched more than 300 MB
   prints `bloat`.  refine's own diagnostics on stdout go to /dev/null.
   argv[1] = per-op time limit in seconds (default 4).
*/
#include "h_proto.h"

#include <errno.h>
#include <signal.h>
#include <sys/resource.h>
#include <sys/time.h>
#include <sys/types.h>
#include <sys/wait.h>
#include <unistd.h>

#include "ref_import.c" /* white box: static ref_import_meshb */

#include "ref_export.h"
#include "ref_gather.h"
#include "ref_geom.h"
#include "ref_grid.h"
#include "ref_mpi.h"
#include "ref_node.h"
#include "ref_part.h"

#if defined(__SANITIZE_ADDRESS__)
#define H_ASAN 1
const char *__asan_default_options(void);
const char *__asan_default_options(void) {
  /* a malloc above 1 GiB returns NULL (the model's Cfg.allocCap) instead of reserving it */
  return "max_allocation_size_mb=1024:allocator_may_return_null=1:detect_leaks=0";
}
#else
#define H_ASAN 0
#endif

#define BLOAT_KB (300L * 1024L)
static FILE *out;
static REF_MPI mpi;
static int limit_s = 4;
static char tmp_in[64], tmp_out[64];

static const char *gnames[] = {"edg", "ed2", "ed3", "tri", "tr2", "tr3", "qua", "qu2",
                               "tet", "pyr", "pri", "hex", "te2", "py2", "pr2", "he2"};
static int group_of(const char *n) {
  int i;
  for (i = 0; i < 16; i++)
    if (0 == strcmp(n, gnames[i])) return i;
  return -1;
}

/* growing output buffer */
static char *ob;
static size_t ob_n, ob_cap;
static void ob_reset(void) { ob_n = 0; }
static void ob_put(const char *s) {
  size_t l = strlen(s);
  if (ob_n + l + 1 > ob_cap) {
    ob_cap = 2 * (ob_n + l + 1) + 1024;
    ob = (char *)realloc(ob, ob_cap);
    if (!ob) _exit(7);
  }
  memcpy(ob + ob_n, s, l + 1);
  ob_n += l;
}
static void ob_int(long long v) {
  char b[32];
  snprintf(b, sizeof b, " %lld", v);
  ob_put(b);
}
static void ob_dbl(double d) {
  char b[32];
  uint64_t u;
  if (d != d) { ob_put(" nan"); return; }
  memcpy(&u, &d, 8);
  snprintf(b, sizeof b, " %016llx", (unsigned long long)u);
  ob_put(b);
}
static void ob_hex(const unsigned char *p, size_t n) {
  static const char *hx = "0123456789abcdef";
  size_t i;
  char b[3];
  b[2] = 0;
  if (0 == n) { ob_put("-"); return; }
  for (i = 0; i < n; i++) {
    b[0] = hx[p[i] >> 4];
    b[1] = hx[p[i] & 15];
    ob_put(b);
  }
}

static int hexval(int c) {
  if (c >= '0' && c <= '9') return c - '0';
  if (c >= 'a' && c <= 'f') return c - 'a' + 10;
  if (c >= 'A' && c <= 'F') return c - 'A' + 10;
  return -1;
}
/* "-" -> 0 bytes; returns NULL on malformed hex */
static unsigned char *unhex(const char *s, size_t *n) {
  size_t l = strlen(s), i;
  unsigned char *p;
  if (0 == strcmp(s, "-")) { *n = 0; return (unsigned char *)malloc(1); }
  if (l % 2) return NULL;
  p = (unsigned char *)malloc(l / 2 + 1);
  for (i = 0; i < l / 2; i++) {
    int a = hexval(s[2 * i]), b = hexval(s[2 * i + 1]);
    if (a < 0 || b < 0) { free(p); return NULL; }
    p[i] = (unsigned char)(16 * a + b);
  }
  *n = l / 2;
  return p;
}
static int spit(const char *name, const unsigned char *p, size_t n) {
  FILE *f = fopen(name, "wb");
  if (!f) return 1;
  if (n && n != fwrite(p, 1, n, f)) { fclose(f); return 1; }
  fclose(f);
  return 0;
}
static unsigned char *slurp(const char *name, size_t *n) {
  FILE *f = fopen(name, "rb");
  long l;
  unsigned char *p;
  if (!f) return NULL;
  fseek(f, 0, SEEK_END);
  l = ftell(f);
  fseek(f, 0, SEEK_SET);
  p = (unsigned char *)malloc((size_t)l + 1);
  if (l && (size_t)l != fread(p, 1, (size_t)l, f)) { fclose(f); free(p); return NULL; }
  fclose(f);
  *n = (size_t)l;
  return p;
}
static int is_int(const char *s) {
  if (*s == '-') s++;
  if (!*s) return 0;
  for (; *s; s++)
    if (*s < '0' || *s > '9') return 0;
  return 1;
}
static int is_f(const char *s) {
  size_t i;
  if (16 != strlen(s)) return 0;
  for (i = 0; i < 16; i++)
    if (hexval(s[i]) < 0) return 0;
  return 1;
}

#define BAD                  \
  {                          \
    ob_reset();              \
    ob_put("bad-op");        \
    goto done;               \
  }
#define ST(s)                     \
  {                               \
    ob_reset();                   \
    ob_put(h_status((int)(s)));   \
    goto done;                    \
  }

/* ---------------------------------------------------------------- writers (in process) */

static void dump_grid(REF_GRID grid);
static void op_write_meshb(int roundtrip) {
  REF_GRID grid = NULL, back = NULL;
  REF_NODE node;
  REF_GEOM geom;
  int k = 1, i, ns, nlive = 0;
  long long ver, twod;
  char *live = NULL;
  REF_STATUS s;
  unsigned char *bytes = NULL;
  size_t nb = 0;
  ob_reset();
  if (h_nw < 5 || !is_int(h_w[1]) || !is_int(h_w[2]) || strcmp(h_w[3], "n") || !is_int(h_w[4])) BAD;
  ver = h_i(h_w[1]);
  twod = h_i(h_w[2]);
  ns = (int)h_i(h_w[4]);
  if (ver < 0 || ver > 6 || twod < 0 || twod > 1 || ns < 0 || ns > 60000) BAD;
  if (REF_SUCCESS != ref_grid_create(&grid, mpi)) { grid = NULL; BAD; }
  node = ref_grid_node(grid);
  geom = ref_grid_geom(grid);
  ref_grid_twod(grid) = (REF_BOOL)twod;
  ref_grid_meshb_version(grid) = (REF_INT)ver;
  live = (char *)calloc((size_t)ns + 1, 1);
  k = 5;
  for (i = 0; i < ns; i++) {
    REF_INT local;
    if (k >= h_nw) BAD;
    if (REF_SUCCESS != ref_node_add(node, i, &local) || local != i) BAD;
    if (0 == strcmp(h_w[k], "-")) {
      k++;
      continue;
    }
    if (k + 3 > h_nw || !is_f(h_w[k]) || !is_f(h_w[k + 1]) || !is_f(h_w[k + 2])) BAD;
    ref_node_xyz(node, 0, local) = h_f(h_w[k]);
    ref_node_xyz(node, 1, local) = h_f(h_w[k + 1]);
    ref_node_xyz(node, 2, local) = h_f(h_w[k + 2]);
    live[i] = 1;
    nlive++;
    k += 3;
  }
  for (i = 0; i < ns; i++)
    if (!live[i] && REF_SUCCESS != ref_node_remove(node, i)) BAD;
  while (k < h_nw) {
    if (0 == strcmp(h_w[k], "c")) {
      int g, nc, c, j;
      REF_CELL cell;
      if (k + 3 > h_nw || !is_int(h_w[k + 2])) BAD;
      g = group_of(h_w[k + 1]);
      nc = (int)h_i(h_w[k + 2]);
      if (g < 0 || nc < 0) BAD;
      cell = ref_grid_cell(grid, g);
      k += 3;
      for (c = 0; c < nc; c++) {
        REF_INT nodes[REF_CELL_MAX_SIZE_PER], newc;
        if (k + ref_cell_size_per(cell) > h_nw) BAD;
        for (j = 0; j < ref_cell_size_per(cell); j++) {
          long long v;
          if (!is_int(h_w[k + j])) BAD;
          v = h_i(h_w[k + j]);
          if (v < -2147483647LL - 1 || v > 2147483647LL) BAD;
          if (j < ref_cell_node_per(cell) && (v < 0 || v >= ns || !live[v])) BAD;
          nodes[j] = (REF_INT)v;
        }
        if (REF_SUCCESS != ref_cell_add(cell, nodes, &newc)) BAD;
        k += ref_cell_size_per(cell);
      }
    } else if (0 == strcmp(h_w[k], "g")) {
      int ng, j;
      if (k + 2 > h_nw || !is_int(h_w[k + 1])) BAD;
      ng = (int)h_i(h_w[k + 1]);
      if (ng < 0 || k + 2 + 6 * ng > h_nw) BAD;
      k += 2;
      for (j = 0; j < ng; j++, k += 6) {
        long long type, id, gref, nd;
        REF_DBL param[2];
        REF_INT found;
        if (!is_int(h_w[k]) || !is_int(h_w[k + 1]) || !is_int(h_w[k + 2]) || !is_int(h_w[k + 3]) ||
            !is_f(h_w[k + 4]) || !is_f(h_w[k + 5]))
          BAD;
        type = h_i(h_w[k]);
        id = h_i(h_w[k + 1]);
        gref = h_i(h_w[k + 2]);
        nd = h_i(h_w[k + 3]);
        if (type < 0 || type > 2 || nd < 0 || nd >= ns || !live[nd]) BAD;
        if (id < -2147483647LL - 1 || id > 2147483647LL || gref < -2147483647LL - 1 || gref > 2147483647LL) BAD;
        param[0] = h_f(h_w[k + 4]);
        param[1] = h_f(h_w[k + 5]);
        if (REF_SUCCESS != ref_geom_add(geom, (REF_INT)nd, (REF_INT)type, (REF_INT)id, param)) BAD;
        if (REF_SUCCESS != ref_geom_find(geom, (REF_INT)nd, (REF_INT)type, (REF_INT)id, &found)) BAD;
        if (type > 0) ref_geom_gref(geom, found) = (REF_INT)gref;
      }
    } else if (0 == strcmp(h_w[k], "b")) {
      size_t n;
      unsigned char *p;
      if (k + 2 > h_nw) BAD;
      p = unhex(h_w[k + 1], &n);
      if (!p) BAD;
      ref_free(ref_geom_cad_data(geom));
      ref_geom_cad_data(geom) = (REF_BYTE *)p;
      ref_geom_cad_data_size(geom) = n;
      k += 2;
    } else
      BAD;
  }
  s = ref_export_by_extension(grid, tmp_out);
  if (REF_SUCCESS != s) ST(s);
  if (roundtrip) {
    s = ref_import_meshb(&back, mpi, tmp_out);
    if (REF_SUCCESS != s) ST(s);
    dump_grid(back);
    goto done;
  }
  bytes = slurp(tmp_out, &nb);
  if (!bytes) BAD;
  ob_put("ok ");
  ob_hex(bytes, nb);
done:
  free(bytes);
  free(live);
  unlink(tmp_out);
  if (grid) ref_grid_free(grid);
  if (back) ref_grid_free(back);
}

/* NN nodes, local i has global GLOBAL_i (a permutation of 0..NN-1); k points at the first GLOBAL */
static REF_GRID field_grid(int nn, int *k, int twod, int ver, int identity) {
  REF_GRID grid = NULL;
  REF_NODE node;
  int i;
  char *seen;
  if (nn < 1 || nn > 60000) return NULL;
  if (!identity && *k + nn > h_nw) return NULL;
  seen = (char *)calloc((size_t)nn, 1);
  for (i = 0; i < nn && !identity; i++) {
    long long g;
    if (!is_int(h_w[*k + i])) { free(seen); return NULL; }
    g = h_i(h_w[*k + i]);
    if (g < 0 || g >= nn || seen[g]) { free(seen); return NULL; }
    seen[g] = 1;
  }
  free(seen);
  if (REF_SUCCESS != ref_grid_create(&grid, mpi)) return NULL;
  node = ref_grid_node(grid);
  ref_grid_twod(grid) = (REF_BOOL)twod;
  ref_grid_meshb_version(grid) = (REF_INT)ver;
  for (i = 0; i < nn; i++) {
    REF_INT local;
    REF_GLOB g = identity ? i : h_i(h_w[*k + i]);
    if (REF_SUCCESS != ref_node_add(node, g, &local) || local != i) { ref_grid_free(grid); return NULL; }
    ref_node_xyz(node, 0, local) = (double)i;
    ref_node_xyz(node, 1, local) = 0.5 * (double)i;
    ref_node_xyz(node, 2, local) = 0.0;
  }
  if (REF_SUCCESS != ref_node_initialize_n_global(node, nn)) { ref_grid_free(grid); return NULL; }
  if (!identity) *k += nn;
  return grid;
}

static void op_write_field(int metric) {
  REF_GRID grid = NULL;
  REF_DBL *scalar = NULL;
  long long ver, twod;
  int nn, ldim = 6, k, i, j;
  REF_STATUS s;
  unsigned char *bytes = NULL;
  size_t nb = 0;
  ob_reset();
  if (h_nw < 4 || !is_int(h_w[1]) || !is_int(h_w[2]) || !is_int(h_w[3])) BAD;
  ver = h_i(h_w[1]);
  twod = h_i(h_w[2]);
  nn = (int)h_i(h_w[3]);
  if (ver < 0 || ver > 6 || twod < 0 || twod > 1) BAD;
  k = 4;
  grid = field_grid(nn, &k, (int)twod, (int)ver, 0);
  if (!grid) BAD;
  if (!metric) {
    if (k >= h_nw || !is_int(h_w[k])) BAD;
    ldim = (int)h_i(h_w[k]);
    if (ldim < 0 || ldim > 64) BAD;
    k++;
  }
  if (k + nn * ldim != h_nw) BAD;
  scalar = (REF_DBL *)malloc(sizeof(REF_DBL) * (size_t)(nn * ldim + 1));
  for (i = 0; i < nn * ldim; i++) {
    if (!is_f(h_w[k + i])) BAD;
    scalar[i] = h_f(h_w[k + i]);
  }
  if (metric) {
    REF_NODE node = ref_grid_node(grid);
    for (i = 0; i < nn; i++)
      for (j = 0; j < 6; j++) node->real[(j + 3) + REF_NODE_REAL_PER * i] = scalar[j + 6 * i];
    s = ref_gather_metric(grid, tmp_out);
  } else {
    s = ref_gather_scalar_by_extension(grid, ldim, scalar, NULL, tmp_out);
  }
  if (REF_SUCCESS != s) ST(s);
  bytes = slurp(tmp_out, &nb);
  if (!bytes) BAD;
  ob_put("ok ");
  ob_hex(bytes, nb);
done:
  free(bytes);
  free(scalar);
  unlink(tmp_out);
  if (grid) ref_grid_free(grid);
}

/* ---------------------------------------------------------------- readers (run in a child) */

static void dump_grid(REF_GRID grid) {
  REF_NODE node = ref_grid_node(grid);
  REF_GEOM geom = ref_grid_geom(grid);
  REF_CELL cell;
  REF_INT group, c, j, g, n;
  ob_put("ok d");
  ob_int(ref_grid_twod(grid) ? 2 : 3);
  ob_put(" n");
  ob_int(ref_node_n(node));
  each_ref_node_valid_node(node, n) {
    ob_dbl(ref_node_xyz(node, 0, n));
    ob_dbl(ref_node_xyz(node, 1, n));
    ob_dbl(ref_node_xyz(node, 2, n));
  }
  for (group = 0; group < 16; group++) {
    cell = ref_grid_cell(grid, group);
    if (0 == ref_cell_n(cell)) continue;
    ob_put(" c ");
    ob_put(gnames[group]);
    ob_int(ref_cell_n(cell));
    each_ref_cell_valid_cell(cell, c) for (j = 0; j < ref_cell_size_per(cell); j++)
        ob_int(ref_cell_c2n(cell, j, c));
  }
  if (ref_geom_n(geom) > 0) {
    ob_put(" g");
    ob_int(ref_geom_n(geom));
    each_ref_geom(geom, g) {
      ob_int(ref_geom_type(geom, g));
      ob_int(ref_geom_id(geom, g));
      ob_int(ref_geom_gref(geom, g));
      ob_int(ref_geom_node(geom, g));
      ob_dbl(ref_geom_param(geom, 0, g));
      ob_dbl(ref_geom_param(geom, 1, g));
    }
  }
  if (ref_geom_cad_data_size(geom) > 0) {
    ob_put(" b ");
    ob_hex(ref_geom_cad_data(geom), ref_geom_cad_data_size(geom));
  }
}

/* suffix dispatch of the *_by_extension entry points on a file NAME (heap copy of exact size, so that a
   read before the string is visible to ASan); the file need not exist.  which: 0 import 1 export 2 metric */
static void child_name(int which, const char *name) {
  REF_GRID grid = NULL;
  REF_STATUS s = REF_SUCCESS;
  char *n = (char *)malloc(strlen(name) + 1);
  ob_reset();
  strcpy(n, name);
  if (0 == which) {
    s = ref_import_by_extension(&grid, mpi, n);
  } else {
    if (REF_SUCCESS != ref_grid_create(&grid, mpi)) { ob_put("bad-op"); return; }
    if (1 == which) s = ref_export_by_extension(grid, n);
    else s = ref_part_metric(ref_grid_node(grid), n);
  }
  unlink(n);
  ob_put(h_status((int)s));
}

/* kind: 0 read_meshb 1 translate_meshb 2 read_solb 3 read_metric.  Runs in the child. */
static void child_read(int kind, int nn, const unsigned char *bytes, size_t nb) {
  REF_GRID grid = NULL;
  REF_STATUS s;
  ob_reset();
  if (spit(tmp_in, bytes, nb)) { ob_put("bad-op"); return; }
  if (0 == kind) {
    s = ref_import_meshb(&grid, mpi, tmp_in);
    if (REF_SUCCESS != s) { ob_put(h_status((int)s)); return; }
    dump_grid(grid);
  } else if (1 == kind) {
    s = ref_import_by_extension(&grid, mpi, tmp_in);
    if (REF_SUCCESS != s) { ob_put(h_status((int)s)); return; }
    s = ref_export_by_extension(grid, tmp_out);
    ob_put(h_status((int)s));
  } else {
    int k = 0, i;
    grid = field_grid(nn, &k, 0, 0, 1);
    if (!grid) { ob_put("bad-op"); return; }
    if (2 == kind) {
      REF_INT ldim = 0;
      REF_DBL *scalar = NULL;
      s = ref_part_scalar(grid, &ldim, &scalar, tmp_in);
      if (REF_SUCCESS != s) { ob_put(h_status((int)s)); return; }
      ob_put("ok");
      ob_int(ldim);
      for (i = 0; i < nn * ldim; i++) ob_dbl(scalar[i]);
    } else {
      REF_DBL m[6];
      s = ref_part_metric(ref_grid_node(grid), tmp_in);
      if (REF_SUCCESS != s) { ob_put(h_status((int)s)); return; }
      ob_put("ok");
      for (i = 0; i < nn; i++) {
        int j;
        ref_node_metric_get(ref_grid_node(grid), i, m);
        for (j = 0; j < 6; j++) ob_dbl(m[j]);
      }
    }
  }
}

static const char *signame(int sig) {
  switch (sig) {
    case SIGSEGV: return "SIGSEGV";
    case SIGBUS: return "SIGBUS";
    case SIGFPE: return "SIGFPE";
    case SIGABRT: return "SIGABRT";
    case SIGKILL: return "SIGKILL";
    case SIGILL: return "SIGILL";
    default: return "signal";
  }
}

static void op_read(int kind, int robust) {
  int fd[2], status = 0, nn = 0, hexarg = 1;
  struct rusage ru;
  pid_t pid;
  unsigned char *bytes = NULL;
  size_t nb = 0;
  ob_reset();
  if (kind >= 10) { /* robust_name WHICH NAME */
    const char *c;
    if (h_nw != 3 || !is_int(h_w[1]) || h_i(h_w[1]) < 0 || h_i(h_w[1]) > 2 || strlen(h_w[2]) > 40) { ob_put("bad-op"); return; }
    for (c = h_w[2]; *c; c++)
      if (!((*c >= 'a' && *c <= 'z') || (*c >= '0' && *c <= '9') || *c == '.' || *c == '_')) { ob_put("bad-op"); return; }
    if (0 != strncmp(h_w[2], "hcn_", 4)) { ob_put("bad-op"); return; }
    bytes = NULL;
    goto spawn;
  }
  if (kind >= 2) {
    if (h_nw != 3 || !is_int(h_w[1])) { ob_put("bad-op"); return; }
    nn = (int)h_i(h_w[1]);
    if (nn < 1 || nn > 60000) { ob_put("bad-op"); return; }
    hexarg = 2;
  } else if (h_nw != 2) { ob_put("bad-op"); return; }
  bytes = unhex(h_w[hexarg], &nb);
  if (!bytes) { ob_put("bad-op"); return; }
spawn:
  if (0 != pipe(fd)) { ob_put("bad-op"); free(bytes); return; }
  fflush(out);
  pid = fork();
  if (0 == pid) {
    size_t w = 0;
    close(fd[0]);
    alarm((unsigned)limit_s);
    if (!H_ASAN) { /* ASan reserves terabytes of address space: there the allocator cap is used instead */
      struct rlimit rl;
      rl.rlim_cur = rl.rlim_max = (rlim_t)1 << 30;
      setrlimit(RLIMIT_AS, &rl);
    }
    if (kind >= 10) child_name((int)h_i(h_w[1]), h_w[2]);
    else child_read(kind, nn, bytes, nb);
    while (w < ob_n) {
      ssize_t r = write(fd[1], ob + w, ob_n - w);
      if (r <= 0) break;
      w += (size_t)r;
    }
    close(fd[1]);
    unlink(tmp_in);
    unlink(tmp_out);
    _exit(0);
  }
  free(bytes);
  close(fd[1]);
  {
    char buf[65536];
    ssize_t r;
    while ((r = read(fd[0], buf, sizeof buf - 1)) > 0) {
      buf[r] = 0;
      ob_put(buf);
    }
    close(fd[0]);
  }
  if (pid < 0 || wait4(pid, &status, 0, &ru) < 0) { ob_reset(); ob_put("bad-op"); return; }
  unlink(tmp_in);
  unlink(tmp_out);
  if (WIFSIGNALED(status)) {
    ob_reset();
    if (SIGALRM == WTERMSIG(status)) ob_put("timeout");
    else { ob_put("crash "); ob_put(signame(WTERMSIG(status))); }
  } else if (WIFEXITED(status) && 0 != WEXITSTATUS(status)) {
    int c = WEXITSTATUS(status);
    ob_reset();
    ob_put(99 == c ? "crash asan" : 98 == c ? "crash ubsan" : "crash exit");
  } else if (robust) {
    ob_reset();
    /* peak resident set of the child in kB: a small file must not make the reader touch this much */
    if (ru.ru_maxrss > BLOAT_KB) ob_put("bloat");
    else ob_put("returned");
  }
}

int main(int argc, char **argv) {
  int fd = dup(1);
  if (argc > 1) limit_s = atoi(argv[1]);
  if (limit_s < 1) limit_s = 1;
  out = fdopen(fd, "w");
  if (!out || !freopen("/dev/null", "w", stdout)) return 3;
  if (REF_SUCCESS != ref_mpi_create(&mpi)) return 3;
  snprintf(tmp_in, sizeof tmp_in, "hc_%ld_in.meshb", (long)getpid());
  snprintf(tmp_out, sizeof tmp_out, "hc_%ld_out.meshb", (long)getpid());
  while (h_next(stdin)) {
    const char *op = h_w[0];
    int solb = (NULL != strstr(op, "solb") || NULL != strstr(op, "metric"));
    snprintf(tmp_in, sizeof tmp_in, "hc_%ld_in.%s", (long)getpid(), solb ? "solb" : "meshb");
    snprintf(tmp_out, sizeof tmp_out, "hc_%ld_out.%s", (long)getpid(), solb ? "solb" : "meshb");
    if (0 == strcmp(op, "write_meshb")) op_write_meshb(0);
    else if (0 == strcmp(op, "rt_meshb")) op_write_meshb(1);
    else if (0 == strcmp(op, "write_solb")) op_write_field(0);
    else if (0 == strcmp(op, "write_metric")) op_write_field(1);
    else if (0 == strcmp(op, "read_meshb")) op_read(0, 0);
    else if (0 == strcmp(op, "read_solb")) op_read(2, 0);
    else if (0 == strcmp(op, "read_metric")) op_read(3, 0);
    else if (0 == strcmp(op, "robust_meshb")) op_read(0, 1);
    else if (0 == strcmp(op, "robust_translate")) op_read(1, 1);
    else if (0 == strcmp(op, "robust_solb")) op_read(2, 1);
    else if (0 == strcmp(op, "robust_metric")) op_read(3, 1);
    else if (0 == strcmp(op, "robust_name")) op_read(10, 1);
    else { ob_reset(); ob_put("bad-op"); }
    fputs(ob_n ? ob : "bad-op", out);
    fputc('\n', out);
    fflush(out);
  }
  ref_mpi_free(mpi);
  return 0;
}
