/* harness `physdist`: the PARALLEL wall distance of ref_phys.c, the wall selection and the bc-tag parsers.
 *
 * Serial or MPI build.  Under mpiexec only rank 0 reads the op lines (stdin or `--ops <file>`) and broadcasts them;
 * only rank 0 prints.  An op names its own rank count k <= (ranks of the run): the first k ranks execute it on the
 * communicator of ref_mpi_front_comm(world, k), so one run compares k = 1 .. np of the same real code.
 *
 *   walldist_par    k dim nsel (id bc)*nsel | G_0 | ... | G_{k-1}
 *   walldist_static k dim nsel (id bc)*nsel | G_0 | ... | G_{k-1}
 *       G_r = K (global part x y z)*K  T (n0 n1 n2 id)*T  Q (n0 n1 n2 n3 id)*Q  E (n0 n1 id)*E
 *       (n* are indices into the group's own vertex list; dim 2 sets ref_grid_twod).  Every rank builds a REF_GRID
 *       holding its group, the dict is (id -> bc), and the REAL ref_phys_wall_distance[_static] runs.
 *       prints `ok | g d g d ... | g d ...` : per rank the (global, distance bits) of every stored vertex in local
 *       order, or `status s_0 ... s_{k-1}` when some rank returns an error.
 *   local_wall dim nsel (id bc)*nsel | G     (rank 0 only) the REAL static ref_phys_local_wall (white-box):
 *       prints `ok node_per ncell xyz...`
 *   mapbc x<hex> (id ty)*            the bytes are written to a scratch file, REAL ref_phys_read_mapbc into a dict that
 *   mapbc nofile (id ty)*            already holds the given pairs: prints `status n k v k v ...`
 *   mapbc_token x<hex> x<tokenhex> (id ty)*    REAL ref_phys_read_mapbc_token
 *   viscous_tags x<hex> (id ty)*     REAL ref_phys_parse_tags
 *   wall_bc c c c ...                REAL ref_phys_wall_distance_bc: prints 0/1 per code
 *
 * bad-op: malformed line, k > ranks, a cell index outside the group, a duplicated global in a group, a part outside
 * [0,k), a ghost whose owner does not store it (the owner would fail and the others block), a run of >= 10 digits or a
 * NUL in parser input, mapbc_token input not ending in a newline (fgets at EOF leaves `name` uninitialised).
 *
 * White-box: ref_phys.c is #included (whitebox=('ref_phys',)).
 */
#include "h_proto.h"
#include <signal.h>
#include <unistd.h>
#ifdef HAVE_MPI
#include <mpi.h>
#endif

#include "ref_phys.c"

#include "ref_dict.h"
#include "ref_grid.h"
#include "ref_mpi.h"
#include "ref_node.h"

static FILE *out;
static int me, np;
static REF_MPI world;

static int is_int_tok(const char *s) {
  if (*s == '-') s++;
  if (!*s) return 0;
  for (; *s; s++)
    if (*s < '0' || *s > '9') return 0;
  return 1;
}
static int is_nat_tok(const char *s) { return *s != '-' && is_int_tok(s) && strlen(s) <= 9; }
static int is_sint_tok(const char *s) { return is_int_tok(s) && strlen(s) <= (size_t)(s[0] == '-' ? 10 : 9); }
static int is_hex16(const char *s) {
  int i;
  for (i = 0; s[i]; i++)
    if (!((s[i] >= '0' && s[i] <= '9') || (s[i] >= 'a' && s[i] <= 'f') || (s[i] >= 'A' && s[i] <= 'F'))) return 0;
  return i == 16;
}

/* ---- output line ---- */
static char *res;
static size_t res_n, res_cap;
static void r_reset(void) {
  res_n = 0;
  if (res) res[0] = 0;
}
static void r_put(const char *s) {
  size_t l = strlen(s);
  if (res_n + l + 2 > res_cap) {
    res_cap = 2 * (res_n + l + 2) + 64;
    res = (char *)realloc(res, res_cap);
  }
  if (res_n > 0) res[res_n++] = ' ';
  memcpy(res + res_n, s, l + 1);
  res_n += l;
}
static void r_ll(long long v) {
  char b[32];
  snprintf(b, sizeof b, "%lld", v);
  r_put(b);
}
static void r_dbl(double d) {
  char b[32];
  uint64_t u;
  if (d != d) {
    r_put("nan");
    return;
  }
  memcpy(&u, &d, 8);
  snprintf(b, sizeof b, "%016llx", (unsigned long long)u);
  r_put(b);
}

#define BAD 1

/* ------------------------------------------------------------------ groups */
#define MAXG 64
static int g_lo[MAXG], g_hi[MAXG], ng, hdr_end;
static int split_groups(int from) {
  int i;
  ng = 0;
  hdr_end = h_nw;
  for (i = from; i < h_nw; i++) {
    if (0 == strcmp(h_w[i], "|")) {
      if (ng == 0) hdr_end = i;
      else g_hi[ng - 1] = i;
      if (ng >= MAXG) return 0;
      g_lo[ng] = i + 1;
      g_hi[ng] = h_nw;
      ng++;
    }
  }
  return 1;
}
#define GLEN(g) (g_hi[g] - g_lo[g])
#define GW(g, k) (h_w[g_lo[g] + (k)])

/* group layout: offsets of the four sections; returns 0 when well formed */
typedef struct {
  int K, T, Q, E, oK, oT, oQ, oE;
} GL;
static int group_layout(int g, GL *l) {
  int k = 0, i, j, per, sec;
  int *cnt[4], *off[4];
  int width[4] = {5, 4, 5, 3};
  cnt[0] = &l->K; cnt[1] = &l->T; cnt[2] = &l->Q; cnt[3] = &l->E;
  off[0] = &l->oK; off[1] = &l->oT; off[2] = &l->oQ; off[3] = &l->oE;
  for (sec = 0; sec < 4; sec++) {
    if (k >= GLEN(g) || !is_nat_tok(GW(g, k))) return BAD;
    *cnt[sec] = (int)h_i(GW(g, k));
    if (*cnt[sec] > 100000) return BAD;
    *off[sec] = k + 1;
    if ((long long)k + 1 + (long long)width[sec] * (*cnt[sec]) > GLEN(g)) return BAD;
    k += 1 + width[sec] * (*cnt[sec]);
  }
  if (k != GLEN(g)) return BAD;
  for (i = 0; i < l->K; i++) {
    if (!is_nat_tok(GW(g, l->oK + 5 * i)) || !is_nat_tok(GW(g, l->oK + 5 * i + 1))) return BAD;
    for (j = 0; j < 3; j++)
      if (!is_hex16(GW(g, l->oK + 5 * i + 2 + j))) return BAD;
    for (j = 0; j < i; j++)
      if (h_i(GW(g, l->oK + 5 * i)) == h_i(GW(g, l->oK + 5 * j))) return BAD;
  }
  for (sec = 1; sec < 4; sec++) {
    per = width[sec] - 1;
    for (i = 0; i < *cnt[sec]; i++) {
      for (j = 0; j < per; j++) {
        const char *t = GW(g, *off[sec] + width[sec] * i + j);
        if (!is_nat_tok(t) || h_i(t) >= l->K) return BAD;
      }
      if (!is_sint_tok(GW(g, *off[sec] + width[sec] * i + per))) return BAD;
    }
  }
  return 0;
}

static int group_has_global(int g, const GL *l, long long glob) {
  int i;
  for (i = 0; i < l->K; i++)
    if (h_i(GW(g, l->oK + 5 * i)) == glob) return 1;
  return 0;
}

/* header `dim nsel (id bc)*nsel` at h_w[from..hdr_end) */
static int parse_header(int from, int *dim, REF_DICT *dict_ptr) {
  int nsel, i;
  REF_DICT dict;
  if (hdr_end - from < 2 || !is_nat_tok(h_w[from]) || !is_nat_tok(h_w[from + 1])) return BAD;
  *dim = (int)h_i(h_w[from]);
  nsel = (int)h_i(h_w[from + 1]);
  if ((*dim != 2 && *dim != 3) || nsel > 10000 || hdr_end - from != 2 + 2 * nsel) return BAD;
  for (i = 0; i < 2 * nsel; i++)
    if (!is_sint_tok(h_w[from + 2 + i])) return BAD;
  if (REF_SUCCESS != ref_dict_create(&dict)) return BAD;
  for (i = 0; i < nsel; i++)
    if (REF_SUCCESS != ref_dict_store(dict, (REF_INT)h_i(h_w[from + 2 + 2 * i]), (REF_INT)h_i(h_w[from + 3 + 2 * i]))) {
      ref_dict_free(dict);
      return BAD;
    }
  *dict_ptr = dict;
  return 0;
}

static int build_grid(REF_MPI mpi, int g, const GL *l, int dim, REF_GRID *grid_ptr) {
  REF_GRID grid;
  REF_NODE ref_node;
  REF_INT nodes[REF_CELL_MAX_SIZE_PER], node, cell;
  int i, j;
  if (REF_SUCCESS != ref_grid_create(&grid, mpi)) return BAD;
  if (2 == dim) ref_grid_twod(grid) = REF_TRUE;
  ref_node = ref_grid_node(grid);
  for (i = 0; i < l->K; i++) {
    if (REF_SUCCESS != ref_node_add(ref_node, (REF_GLOB)h_i(GW(g, l->oK + 5 * i)), &node) || node != i) {
      ref_grid_free(grid);
      return BAD;
    }
    ref_node_part(ref_node, node) = (REF_INT)h_i(GW(g, l->oK + 5 * i + 1));
    for (j = 0; j < 3; j++) ref_node_xyz(ref_node, j, node) = h_f(GW(g, l->oK + 5 * i + 2 + j));
  }
  for (i = 0; i < l->T; i++) {
    for (j = 0; j < 4; j++) nodes[j] = (REF_INT)h_i(GW(g, l->oT + 4 * i + j));
    if (REF_SUCCESS != ref_cell_add(ref_grid_tri(grid), nodes, &cell)) { ref_grid_free(grid); return BAD; }
  }
  for (i = 0; i < l->Q; i++) {
    for (j = 0; j < 5; j++) nodes[j] = (REF_INT)h_i(GW(g, l->oQ + 5 * i + j));
    if (REF_SUCCESS != ref_cell_add(ref_grid_qua(grid), nodes, &cell)) { ref_grid_free(grid); return BAD; }
  }
  for (i = 0; i < l->E; i++) {
    for (j = 0; j < 3; j++) nodes[j] = (REF_INT)h_i(GW(g, l->oE + 3 * i + j));
    if (REF_SUCCESS != ref_cell_add(ref_grid_edg(grid), nodes, &cell)) { ref_grid_free(grid); return BAD; }
  }
  *grid_ptr = grid;
  return 0;
}

/* ------------------------------------------------------------------ walldist_par / walldist_static */
static int op_walldist(int is_static) {
  int k, dim = 3, g, i, rc = 0;
  GL gl[MAXG];
  REF_DICT dict = NULL;
  REF_MPI sub = NULL;
  if (h_nw < 2 || !is_nat_tok(h_w[1])) return BAD;
  k = (int)h_i(h_w[1]);
  if (k < 1 || k > np || k > MAXG || !split_groups(2) || ng != k) return BAD;
  for (g = 0; g < k; g++)
    if (group_layout(g, &gl[g])) return BAD;
  for (g = 0; g < k; g++)
    for (i = 0; i < gl[g].K; i++) {
      long long part = h_i(GW(g, gl[g].oK + 5 * i + 1));
      if (part >= k) return BAD;
      if (part != g && !group_has_global((int)part, &gl[part], h_i(GW(g, gl[g].oK + 5 * i)))) return BAD;
    }
  if (parse_header(2, &dim, &dict)) return BAD;
  if (REF_SUCCESS != ref_mpi_front_comm(world, &sub, k)) {
    ref_dict_free(dict);
    return BAD;
  }
  {
    REF_GRID grid = NULL;
    REF_DBL *distance = NULL;
    REF_STATUS st = REF_SUCCESS;
    int nmine = 0;
    long long *gl_out = NULL;
    double *d_out = NULL;
    int built_bad = 0;
    if (me < k && build_grid(sub, me, &gl[me], dim, &grid)) built_bad = 1;
#ifdef HAVE_MPI
    MPI_Allreduce(MPI_IN_PLACE, &built_bad, 1, MPI_INT, MPI_MAX, MPI_COMM_WORLD);
#endif
    if (built_bad) { /* not expected: every rank skips the call */
      if (grid) ref_grid_free(grid);
      ref_mpi_join_comm(sub);
      ref_mpi_free(sub);
      ref_dict_free(dict);
      return BAD;
    }
    if (me < k) {
      if (REF_SUCCESS == st) {
        REF_NODE ref_node = ref_grid_node(grid);
        distance = (REF_DBL *)malloc(sizeof(REF_DBL) * (size_t)(ref_node_max(ref_node) + 1));
        for (i = 0; i < ref_node_max(ref_node); i++) distance[i] = -1.0;
        st = is_static ? ref_phys_wall_distance_static(grid, dict, distance)
                       : ref_phys_wall_distance(grid, dict, distance);
        nmine = gl[me].K;
        gl_out = (long long *)malloc(sizeof(long long) * (size_t)(nmine + 1));
        d_out = (double *)malloc(sizeof(double) * (size_t)(nmine + 1));
        for (i = 0; i < nmine; i++) {
          gl_out[i] = (long long)ref_node_global(ref_node, i);
          d_out[i] = distance[i];
        }
      }
    }
    /* collect on rank 0 of the world */
    {
      int *sts = (int *)calloc((size_t)np, sizeof(int));
      int mine = (me < k) ? (int)st : 0, r, anybad = 0;
#ifdef HAVE_MPI
      MPI_Gather(&mine, 1, MPI_INT, sts, 1, MPI_INT, 0, MPI_COMM_WORLD);
#else
      sts[0] = mine;
#endif
      if (0 == me) {
        for (r = 0; r < k; r++)
          if (sts[r] != 0) anybad = 1;
        if (anybad) {
          r_put("status");
          for (r = 0; r < k; r++) r_put(h_status(sts[r]));
        } else {
          r_put("ok");
        }
      }
#ifdef HAVE_MPI
      MPI_Bcast(&anybad, 1, MPI_INT, 0, MPI_COMM_WORLD);
#endif
      if (!anybad) {
        for (r = 0; r < k; r++) {
          int n = gl[r].K;
          long long *gb = NULL;
          double *db = NULL;
          if (0 == r) {
            if (0 == me) { gb = gl_out; db = d_out; }
          } else {
#ifdef HAVE_MPI
            if (0 == me) {
              gb = (long long *)malloc(sizeof(long long) * (size_t)(n + 1));
              db = (double *)malloc(sizeof(double) * (size_t)(n + 1));
              MPI_Recv(gb, n, MPI_LONG_LONG, r, 7, MPI_COMM_WORLD, MPI_STATUS_IGNORE);
              MPI_Recv(db, n, MPI_DOUBLE, r, 8, MPI_COMM_WORLD, MPI_STATUS_IGNORE);
            } else if (me == r) {
              MPI_Send(gl_out, n, MPI_LONG_LONG, 0, 7, MPI_COMM_WORLD);
              MPI_Send(d_out, n, MPI_DOUBLE, 0, 8, MPI_COMM_WORLD);
            }
#endif
          }
          if (0 == me) {
            r_put("|");
            for (i = 0; i < n; i++) {
              r_ll(gb[i]);
              r_dbl(db[i]);
            }
            if (0 != r) { free(gb); free(db); }
          }
        }
      }
      free(sts);
    }
    free(gl_out);
    free(d_out);
    free(distance);
    if (grid) ref_grid_free(grid);
  }
  ref_mpi_join_comm(sub);
  ref_mpi_free(sub);
  ref_dict_free(dict);
  return rc;
}

/* ------------------------------------------------------------------ local_wall (rank 0) */
static int op_local_wall(void) {
  int dim = 3, i;
  GL l;
  REF_DICT dict = NULL;
  REF_GRID grid = NULL;
  REF_MPI sub = NULL;
  REF_INT node_per = 0, ncell = 0;
  REF_DBL *xyz = NULL;
  REF_STATUS st;
  if (!split_groups(1) || ng != 1 || group_layout(0, &l)) return BAD;
  for (i = 0; i < l.K; i++)
    if (h_i(GW(0, l.oK + 5 * i + 1)) > 1000) return BAD;
  if (parse_header(1, &dim, &dict)) return BAD;
  if (REF_SUCCESS != ref_mpi_front_comm(world, &sub, 1)) { ref_dict_free(dict); return BAD; }
  if (0 == me) {
    if (build_grid(sub, 0, &l, dim, &grid)) {
      r_put("failure");
    } else {
      st = ref_phys_local_wall(grid, dict, &node_per, &ncell, &xyz);
      r_put(h_status((int)st));
      if (REF_SUCCESS == st) {
        r_ll(node_per);
        r_ll(ncell);
        for (i = 0; i < 3 * node_per * ncell; i++) r_dbl(xyz[i]);
        free(xyz);
      }
      ref_grid_free(grid);
    }
  }
  ref_mpi_join_comm(sub);
  ref_mpi_free(sub);
  ref_dict_free(dict);
  return 0;
}

/* ------------------------------------------------------------------ parsers (rank 0) */
static int unhex(const char *t, char **buf, size_t *len) {
  size_t n, i;
  int run = 0;
  if (t[0] != 'x') return BAD;
  t++;
  n = strlen(t);
  if (n % 2) return BAD;
  *buf = (char *)malloc(n / 2 + 1);
  for (i = 0; i < n / 2; i++) {
    unsigned v;
    char b[3] = {t[2 * i], t[2 * i + 1], 0};
    if (!((b[0] >= '0' && b[0] <= '9') || (b[0] >= 'a' && b[0] <= 'f')) ||
        !((b[1] >= '0' && b[1] <= '9') || (b[1] >= 'a' && b[1] <= 'f'))) { free(*buf); return BAD; }
    v = (unsigned)strtoul(b, NULL, 16);
    if (0 == v || v > 127) { free(*buf); return BAD; }
    (*buf)[i] = (char)v;
    if (v >= '0' && v <= '9') {
      if (++run >= 10) { free(*buf); return BAD; }
    } else run = 0;
  }
  (*buf)[n / 2] = 0;
  *len = n / 2;
  return 0;
}

static int pre_dict(int from, REF_DICT *dict_ptr) {
  int i;
  REF_DICT dict;
  if ((h_nw - from) % 2) return BAD;
  for (i = from; i < h_nw; i++)
    if (!is_sint_tok(h_w[i])) return BAD;
  if (REF_SUCCESS != ref_dict_create(&dict)) return BAD;
  for (i = from; i < h_nw; i += 2) ref_dict_store(dict, (REF_INT)h_i(h_w[i]), (REF_INT)h_i(h_w[i + 1]));
  *dict_ptr = dict;
  return 0;
}

static void put_dict(REF_STATUS st, REF_DICT dict) {
  int i;
  r_put(h_status((int)st));
  r_ll(ref_dict_n(dict));
  for (i = 0; i < ref_dict_n(dict); i++) {
    r_ll(ref_dict_key(dict, i));
    r_ll(ref_dict_keyvalue(dict, i));
  }
}

static int write_scratch(const char *buf, size_t len, char *path, size_t cap) {
  FILE *f;
  snprintf(path, cap, "physdist_mapbc_%d.txt", (int)getpid());
  f = fopen(path, "wb");
  if (!f) return BAD;
  if (len && 1 != fwrite(buf, len, 1, f)) { fclose(f); return BAD; }
  fclose(f);
  return 0;
}

static int op_mapbc(int with_token) {
  char *buf = NULL, *tok = NULL, path[256];
  size_t len = 0, tlen = 0;
  REF_DICT dict = NULL;
  REF_STATUS st;
  int from = with_token ? 3 : 2, nofile;
  if (h_nw < from) return BAD;
  nofile = 0 == strcmp(h_w[1], "nofile");
  if (!nofile && unhex(h_w[1], &buf, &len)) return BAD;
  if (with_token) {
    if (unhex(h_w[2], &tok, &tlen)) { free(buf); return BAD; }
    if (!nofile && (0 == len || buf[len - 1] != '\n')) { free(buf); free(tok); return BAD; }
  }
  if (pre_dict(from, &dict)) { free(buf); free(tok); return BAD; }
  if (0 == me) {
    if (nofile) {
      snprintf(path, sizeof path, "physdist_no_such_file_%d.txt", (int)getpid());
      remove(path);
    } else if (write_scratch(buf, len, path, sizeof path)) {
      free(buf); free(tok); ref_dict_free(dict);
      return BAD;
    }
    st = with_token ? ref_phys_read_mapbc_token(dict, path, tok) : ref_phys_read_mapbc(dict, path);
    put_dict(st, dict);
    if (!nofile) remove(path);
  }
  free(buf);
  free(tok);
  ref_dict_free(dict);
  return 0;
}

static int op_viscous_tags(void) {
  char *buf = NULL;
  size_t len = 0;
  REF_DICT dict = NULL;
  if (h_nw < 2 || unhex(h_w[1], &buf, &len)) return BAD;
  if (pre_dict(2, &dict)) { free(buf); return BAD; }
  if (0 == me) put_dict(ref_phys_parse_tags(dict, buf), dict);
  free(buf);
  ref_dict_free(dict);
  return 0;
}

static int op_wall_bc(void) {
  int i;
  for (i = 1; i < h_nw; i++)
    if (!is_sint_tok(h_w[i])) return BAD;
  r_put("ok");
  for (i = 1; i < h_nw; i++) r_ll(ref_phys_wall_distance_bc((REF_INT)h_i(h_w[i])) ? 1 : 0);
  return 0;
}

/* ------------------------------------------------------------------ main */
static void tokenise(void) {
  char *p;
  h_nw = 0;
  for (p = strtok(h_line, " \t\r\n"); p && h_nw < H_MAXW; p = strtok(NULL, " \t\r\n")) h_w[h_nw++] = p;
}

static void on_alarm(int sig) {
  (void)sig;
  _exit(97);
}

int main(int argc, char *argv[]) {
  int fd;
  FILE *in = stdin;
#ifdef HAVE_MPI
  MPI_Init(&argc, &argv);
#endif
  if (REF_SUCCESS != ref_mpi_create(&world)) return 3;
  me = ref_mpi_rank(world);
  np = ref_mpi_n(world);
  if (argc >= 3 && 0 == strcmp(argv[1], "--ops") && 0 == me) {
    in = fopen(argv[2], "r");
    if (!in) return 4;
  }
  fd = dup(1);
  out = fdopen(fd, "w");
  if (!freopen("/dev/null", "w", stdout)) return 3;
  signal(SIGALRM, on_alarm);
  for (;;) {
    int len = -1, rc;
    const char *op;
    if (0 == me) {
      for (;;) {
        char *p;
        if (!fgets(h_line, sizeof(h_line), in)) {
          len = -1;
          break;
        }
        p = h_line;
        while (*p == ' ' || *p == '\t') p++;
        if (*p == '#' || *p == '\n' || *p == '\r' || *p == 0) continue;
        len = (int)strlen(h_line);
        break;
      }
    }
#ifdef HAVE_MPI
    MPI_Bcast(&len, 1, MPI_INT, 0, MPI_COMM_WORLD);
    if (len < 0) break;
    MPI_Bcast(h_line, len + 1, MPI_CHAR, 0, MPI_COMM_WORLD);
#else
    if (len < 0) break;
#endif
    tokenise();
    if (h_nw == 0) continue;
    op = h_w[0];
    r_reset();
    r_put("");
    r_reset();
    alarm(60);
    if (!strcmp(op, "walldist_par")) rc = op_walldist(0);
    else if (!strcmp(op, "walldist_static")) rc = op_walldist(1);
    else if (!strcmp(op, "local_wall")) rc = op_local_wall();
    else if (!strcmp(op, "mapbc")) rc = op_mapbc(0);
    else if (!strcmp(op, "mapbc_token")) rc = op_mapbc(1);
    else if (!strcmp(op, "viscous_tags")) rc = op_viscous_tags();
    else if (!strcmp(op, "wall_bc")) rc = op_wall_bc();
    else rc = BAD;
    alarm(0);
    if (0 == me) {
      if (rc == BAD) fputs("bad-op\n", out);
      else fprintf(out, "%s\n", res);
      fflush(out);
    }
  }
  fclose(out);
  ref_mpi_free(world);
#ifdef HAVE_MPI
  MPI_Finalize();
#endif
  return 0;
}
