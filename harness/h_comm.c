/* harness `comm` (MPI): the communication primitives of ref_mpi.c + ref_search_selection.
 *
 * Only rank 0 reads the op lines (stdin, or the file named by `--ops <file>`); every op line is broadcast to all ranks (plain MPI_Bcast).  One op line carries
 * the arguments of ALL ranks:   op np header... | rank-0 group | rank-1 group | ...
 * Every rank parses the whole line, picks its share, all ranks call the real ref_mpi function, the per-rank
 * result strings are gathered to rank 0 with plain MPI_Gather/MPI_Gatherv and printed as one line
 * `res0 | res1 | ...`.  A rank's result is `<status>` or `ok <payload>`.
 *
 * White-box: ref_mpi.c is #included (static find_destination); list whitebox=('ref_mpi',) in the Stream.
 * refine prints diagnostics on stdout in its error macros: stdout is redirected to /dev/null and the
 * protocol lines go to a dup of the original descriptor.
 */
#include "h_proto.h"
#include <signal.h>
#include <unistd.h>

#include "ref_mpi.c"
#include "ref_search.h"

#ifndef HAVE_MPI
#error "h_comm.c is an MPI harness: build with mpicc -DHAVE_MPI"
#endif

static FILE *out;
static int me, np;
static REF_MPI ref_mpi;

/* ---- result string ---- */
static char *res;
static size_t res_n, res_cap;
static long op_serial = 0;
static void r_reset(void) { res_n = 0; if (res) res[0] = 0; }
static void r_put(const char *s) {
  size_t l = strlen(s);
  if (res_n + l + 2 > res_cap) {
    res_cap = 2 * (res_n + l + 2) + 64;
    res = (char *)realloc(res, res_cap);
  }
  if (res_n > 0) res[res_n++] = ' ';
  memcpy(res + res_n, s, l + 1);
  res_n += l;
}
static void r_ll(long long v) { char b[32]; snprintf(b, sizeof b, "%lld", v); r_put(b); }
static void r_dbl(double d) {
  char b[32];
  uint64_t u;
  if (d != d) { r_put("nan"); return; }
  memcpy(&u, &d, 8);
  snprintf(b, sizeof b, "%016llx", (unsigned long long)u);
  r_put(b);
}

/* ---- typed values ---- */
#define T_UNK 0
static int parse_type(const char *s) {
  if (!strcmp(s, "int")) return REF_INT_TYPE;
  if (!strcmp(s, "long")) return REF_LONG_TYPE;
  if (!strcmp(s, "dbl")) return REF_DBL_TYPE;
  if (!strcmp(s, "byte")) return REF_BYTE_TYPE;
  if (!strcmp(s, "unk")) return T_UNK;
  return -1;
}
static size_t esize(int t) {
  switch (t) {
    case REF_LONG_TYPE: return sizeof(REF_LONG);
    case REF_DBL_TYPE: return sizeof(REF_DBL);
    case REF_BYTE_TYPE: return 1;
    default: return sizeof(REF_INT);
  }
}
static int is_int_tok(const char *s) {
  if (*s == '-') s++;
  if (!*s) return 0;
  for (; *s; s++) if (*s < '0' || *s > '9') return 0;
  return 1;
}
static int is_hex16(const char *s) {
  int i;
  for (i = 0; s[i]; i++)
    if (!((s[i] >= '0' && s[i] <= '9') || (s[i] >= 'a' && s[i] <= 'f') || (s[i] >= 'A' && s[i] <= 'F'))) return 0;
  return i == 16;
}
/* 1 on success */
static int val_ok(int t, const char *s) {
  if (t == REF_DBL_TYPE) return is_hex16(s);
  if (!is_int_tok(s)) return 0;
  if (t == REF_BYTE_TYPE) { long long v = h_i(s); return *s != '-' && v >= 0 && v < 256; }
  return 1;
}
static void val_store(int t, const char *s, void *buf, long i) {
  switch (t) {
    case REF_LONG_TYPE: ((REF_LONG *)buf)[i] = (REF_LONG)h_i(s); break;
    case REF_DBL_TYPE: ((REF_DBL *)buf)[i] = h_f(s); break;
    case REF_BYTE_TYPE: ((unsigned char *)buf)[i] = (unsigned char)h_i(s); break;
    default: ((REF_INT *)buf)[i] = (REF_INT)h_i(s); break;
  }
}
static void val_print(int t, const void *buf, long i) {
  switch (t) {
    case REF_LONG_TYPE: r_ll(((const REF_LONG *)buf)[i]); break;
    case REF_DBL_TYPE: r_dbl(((const REF_DBL *)buf)[i]); break;
    case REF_BYTE_TYPE: r_ll(((const unsigned char *)buf)[i]); break;
    default: r_ll(((const REF_INT *)buf)[i]); break;
  }
}
static void *zalloc(size_t n, size_t sz) { return calloc(n + 1, sz); }

/* ---- groups ---- */
#define MAXG 64
static int g_lo[MAXG], g_hi[MAXG], ng, hdr_end;
/* header = h_w[2..hdr_end); groups between bars */
static int split_groups(void) {
  int i;
  ng = 0;
  hdr_end = h_nw;
  for (i = 2; i < h_nw; i++) {
    if (0 == strcmp(h_w[i], "|")) {
      if (ng == 0) hdr_end = i;
      else g_hi[ng - 1] = i;
      if (ng >= MAXG) return 0;
      g_lo[ng] = i + 1;
      g_hi[ng] = h_nw;
      ng++;
    }
  }
  return 1;
}
#define GLEN(g) (g_hi[g] - g_lo[g])
#define GW(g, k) (h_w[g_lo[g] + (k)])
#define NHDR (hdr_end - 2)
#define HDR(k) (h_w[2 + (k)])

static void put_status(REF_STATUS s) { r_put(h_status((int)s)); }

static void on_alarm(int sig) {
  (void)sig;
  _exit(97);
}

/* ---------------------------------------------------------------- ops */
#define BAD 1
#define HANG 2
#define CAPN 200000LL

static int in_int(long long v) { return v <= 2147483647LL && v >= -2147483648LL; }

/* independent 64-bit prediction of the guards of ref_mpi_alltoallv for one rank's size array */
static int sizes_bad(long long ldim, const long long *sz) {
  int p;
  long long disp = 0;
  for (p = 0; p < np; p++) {
    if (sz[p] < 0) return 1;
    if (!in_int(ldim * sz[p])) return 1;
  }
  for (p = 1; p < np; p++) {
    if (!in_int(disp + ldim * sz[p - 1])) return 1;
    disp += ldim * sz[p - 1];
  }
  return 0;
}

static int op_alltoallv(void) {
  int type, native, g, p, anybad = 0, allbad = 1, rc = 0;
  long long maxtag, ldim;
  long long *cnt; /* cnt[s*np+d] */
  int *bad;
  if (NHDR != 4) return BAD;
  type = parse_type(HDR(0));
  if (type < 0 || !is_int_tok(HDR(1)) || !is_int_tok(HDR(2)) || !is_int_tok(HDR(3))) return BAD;
  native = h_i(HDR(1)) != 0;
  maxtag = h_i(HDR(2));
  ldim = h_i(HDR(3));
  if (ldim < 0 || ldim > 2147483647LL) return BAD;
  cnt = (long long *)zalloc((size_t)np * np, sizeof(long long));
  bad = (int *)zalloc(np, sizeof(int));
  for (g = 0; g < np && !rc; g++) {
    if (GLEN(g) < np + 1 || strcmp(GW(g, np), ":")) { rc = BAD; break; }
    for (p = 0; p < np; p++) {
      if (!is_int_tok(GW(g, p)) || strlen(GW(g, p)) > 12) { rc = BAD; break; }
      cnt[g * np + p] = h_i(GW(g, p));
    }
  }
  if (!rc) {
    long long *col = (long long *)zalloc(np, sizeof(long long));
    for (g = 0; g < np; g++) {
      for (p = 0; p < np; p++) col[p] = cnt[p * np + g];
      bad[g] = sizes_bad(ldim, &cnt[g * np]) || sizes_bad(ldim, col);
      anybad |= bad[g];
      allbad &= bad[g];
    }
    free(col);
    if (native && anybad) rc = BAD;
    else if (anybad && !allbad) rc = HANG;
  }
  if (!rc && !anybad) {
    for (g = 0; g < np; g++) {
      long long ts = 0, tr = 0;
      for (p = 0; p < np; p++) { ts += cnt[g * np + p]; tr += cnt[p * np + g]; }
      if (ldim * ts > CAPN || ldim * tr > CAPN || GLEN(g) - np - 1 != ldim * ts) { rc = BAD; break; }
      for (p = 0; p < ldim * ts; p++)
        if (!val_ok(type, GW(g, np + 1 + p))) { rc = BAD; break; }
    }
  }
  if (!rc) {
    REF_INT *ss = (REF_INT *)zalloc(np, sizeof(REF_INT)), *rs = (REF_INT *)zalloc(np, sizeof(REF_INT));
    long long ts = 0, tr = 0, i;
    void *send, *recv;
    REF_STATUS st;
    REF_INT saved = ref_mpi->max_tag;
    for (p = 0; p < np; p++) {
      ss[p] = (REF_INT)cnt[me * np + p];
      rs[p] = (REF_INT)cnt[p * np + me];
      ts += cnt[me * np + p];
      tr += cnt[p * np + me];
    }
    if (anybad) { ts = 0; tr = 0; }
    send = zalloc((size_t)(ldim * ts), esize(type));
    recv = zalloc((size_t)(ldim * tr), esize(type));
    for (i = 0; i < ldim * ts; i++) val_store(type, GW(me, np + 1 + i), send, i);
    ref_mpi->native_alltoallv = native;
    if (maxtag >= 0) ref_mpi->max_tag = (REF_INT)maxtag;
    st = ref_mpi_alltoallv(ref_mpi, send, ss, recv, rs, (REF_INT)ldim, type);
    ref_mpi->max_tag = saved;
    ref_mpi->native_alltoallv = REF_FALSE;
    put_status(st);
    if (REF_SUCCESS == st)
      for (i = 0; i < ldim * tr; i++) val_print(type, recv, i);
    free(send);
    free(recv);
    free(ss);
    free(rs);
  }
  free(cnt);
  free(bad);
  return rc;
}

static int op_alltoall(void) {
  int type, g, p;
  void *send, *recv;
  REF_STATUS st;
  if (NHDR != 1) return BAD;
  type = parse_type(HDR(0));
  if (type < 0) return BAD;
  for (g = 0; g < np; g++) {
    if (GLEN(g) != np) return BAD;
    for (p = 0; p < np; p++)
      if (!val_ok(type, GW(g, p))) return BAD;
  }
  send = zalloc(np, esize(type));
  recv = zalloc(np, esize(type));
  for (p = 0; p < np; p++) val_store(type, GW(me, p), send, p);
  st = ref_mpi_alltoall(ref_mpi, send, recv, type);
  put_status(st);
  if (REF_SUCCESS == st)
    for (p = 0; p < np; p++) val_print(type, recv, p);
  free(send);
  free(recv);
  return 0;
}

static int op_blindsend(void) {
  int type, native, g;
  long long maxtag, ldim, nsend, i, l;
  REF_INT *proc, nrecv = -1, saved;
  void *send, *recv = NULL;
  REF_STATUS st;
  if (NHDR != 4) return BAD;
  type = parse_type(HDR(0));
  if (type < 0 || !is_int_tok(HDR(1)) || !is_int_tok(HDR(2)) || !is_int_tok(HDR(3))) return BAD;
  native = h_i(HDR(1)) != 0;
  maxtag = h_i(HDR(2));
  ldim = h_i(HDR(3));
  if (ldim < 1 || ldim > 64) return BAD;
  for (g = 0; g < np; g++) {
    if (GLEN(g) < 1 || !is_int_tok(GW(g, 0)) || strlen(GW(g, 0)) > 7) return BAD;
    nsend = h_i(GW(g, 0));
    if (nsend < 0 || GLEN(g) - 1 != nsend * (ldim + 1)) return BAD;
    for (i = 0; i < nsend; i++) {
      const char *d = GW(g, 1 + i * (ldim + 1));
      if (!is_int_tok(d) || strlen(d) > 7 || h_i(d) < 0 || h_i(d) >= np) return BAD;
      for (l = 0; l < ldim; l++)
        if (!val_ok(type, GW(g, 2 + i * (ldim + 1) + l))) return BAD;
    }
  }
  nsend = h_i(GW(me, 0));
  proc = (REF_INT *)zalloc((size_t)nsend, sizeof(REF_INT));
  send = zalloc((size_t)(nsend * ldim), esize(type));
  for (i = 0; i < nsend; i++) {
    proc[i] = (REF_INT)h_i(GW(me, 1 + i * (ldim + 1)));
    for (l = 0; l < ldim; l++) val_store(type, GW(me, 2 + i * (ldim + 1) + l), send, i * ldim + l);
  }
  saved = ref_mpi->max_tag;
  ref_mpi->native_alltoallv = native;
  if (maxtag >= 0) ref_mpi->max_tag = (REF_INT)maxtag;
  st = ref_mpi_blindsend(ref_mpi, proc, send, (REF_INT)ldim, (REF_INT)nsend, &recv, &nrecv, type);
  ref_mpi->max_tag = saved;
  ref_mpi->native_alltoallv = REF_FALSE;
  put_status(st);
  if (REF_SUCCESS == st) {
    r_ll(nrecv);
    for (i = 0; i < (long long)nrecv * ldim; i++) val_print(type, recv, i);
  }
  if (recv) free(recv);
  free(proc);
  free(send);
  return 0;
}

/* groups of the form `count v*(ldim*count)`; returns BAD or 0 */
static int check_counted(int type, long long ldim) {
  int g;
  long long n, i;
  for (g = 0; g < np; g++) {
    if (GLEN(g) < 1 || !is_int_tok(GW(g, 0)) || strlen(GW(g, 0)) > 7) return BAD;
    n = h_i(GW(g, 0));
    if (n < 0 || GLEN(g) - 1 != n * ldim) return BAD;
    for (i = 0; i < n * ldim; i++)
      if (!val_ok(type, GW(g, 1 + i))) return BAD;
  }
  return 0;
}

static int op_balance(void) {
  int type, native;
  long long ldim, first, last, nitem, i;
  REF_INT nbal = -1;
  void *items, *balanced = NULL;
  REF_STATUS st;
  if (NHDR != 5) return BAD;
  type = parse_type(HDR(0));
  if (type < 0 || !is_int_tok(HDR(1)) || !is_int_tok(HDR(2)) || !is_int_tok(HDR(3)) || !is_int_tok(HDR(4)))
    return BAD;
  native = h_i(HDR(1)) != 0;
  ldim = h_i(HDR(2));
  first = h_i(HDR(3));
  last = h_i(HDR(4));
  if (ldim < 1 || ldim > 64 || strlen(HDR(3)) > 7 || strlen(HDR(4)) > 7) return BAD;
  if (check_counted(type, ldim)) return BAD;
  nitem = h_i(GW(me, 0));
  items = zalloc((size_t)(nitem * ldim), esize(type));
  for (i = 0; i < nitem * ldim; i++) val_store(type, GW(me, 1 + i), items, i);
  ref_mpi->native_alltoallv = native;
  st = ref_mpi_balance(ref_mpi, (REF_INT)ldim, (REF_INT)nitem, items, (REF_INT)first, (REF_INT)last, &nbal,
                       &balanced, type);
  ref_mpi->native_alltoallv = REF_FALSE;
  put_status(st);
  if (REF_SUCCESS == st) {
    r_ll(nbal);
    for (i = 0; i < (long long)nbal * ldim; i++) val_print(type, balanced, i);
  }
  if (balanced) free(balanced);
  free(items);
  return 0;
}

static int op_allgather(void) {
  int type, g, p;
  void *scalar, *array;
  REF_STATUS st;
  if (NHDR != 1) return BAD;
  type = parse_type(HDR(0));
  if (type < 0) return BAD;
  for (g = 0; g < np; g++)
    if (GLEN(g) != 1 || !val_ok(type, GW(g, 0))) return BAD;
  scalar = zalloc(1, 8);
  array = zalloc(np, 8);
  val_store(type, GW(me, 0), scalar, 0);
  st = ref_mpi_allgather(ref_mpi, scalar, array, type);
  put_status(st);
  if (REF_SUCCESS == st)
    for (p = 0; p < np; p++) val_print(type, array, p);
  free(scalar);
  free(array);
  return 0;
}

static int op_allgatherv(void) {
  int type, g, i;
  long long total = 0;
  REF_INT *counts;
  void *local, *recv;
  REF_STATUS st;
  if (NHDR != 1) return BAD;
  type = parse_type(HDR(0));
  if (type < 0) return BAD;
  for (g = 0; g < np; g++)
    for (i = 0; i < GLEN(g); i++)
      if (!val_ok(type, GW(g, i))) return BAD;
  counts = (REF_INT *)zalloc(np, sizeof(REF_INT));
  for (g = 0; g < np; g++) { counts[g] = GLEN(g); total += GLEN(g); }
  local = zalloc((size_t)GLEN(me), esize(type));
  recv = zalloc((size_t)total, esize(type));
  for (i = 0; i < GLEN(me); i++) val_store(type, GW(me, i), local, i);
  st = ref_mpi_allgatherv(ref_mpi, local, counts, recv, type);
  put_status(st);
  if (REF_SUCCESS == st)
    for (i = 0; i < total; i++) val_print(type, recv, i);
  free(counts);
  free(local);
  free(recv);
  return 0;
}

static int op_allconcat(void) {
  int type;
  long long ldim, n, i;
  REF_INT total = -1, *source = NULL;
  void *mine, *cat = NULL;
  REF_STATUS st;
  if (NHDR != 2) return BAD;
  type = parse_type(HDR(0));
  if (type < 0 || !is_int_tok(HDR(1))) return BAD;
  ldim = h_i(HDR(1));
  if (ldim < 1 || ldim > 64) return BAD;
  if (check_counted(type, ldim)) return BAD;
  n = h_i(GW(me, 0));
  mine = zalloc((size_t)(n * ldim), esize(type));
  for (i = 0; i < n * ldim; i++) val_store(type, GW(me, 1 + i), mine, i);
  st = ref_mpi_allconcat(ref_mpi, (REF_INT)ldim, (REF_INT)n, mine, &total, &source, &cat, type);
  put_status(st);
  if (REF_SUCCESS == st) {
    r_ll(total);
    for (i = 0; i < total; i++) r_ll(source[i]);
    r_put(";");
    for (i = 0; i < (long long)total * ldim; i++) val_print(type, cat, i);
  }
  if (source) free(source);
  if (cat) free(cat);
  free(mine);
  return 0;
}

/* sum / allsum / min / max */
static int op_reduce(int which) { /* 0 sum 1 allsum 2 min 3 max */
  int type, g;
  long long n = 1, i;
  void *in, *outv;
  REF_STATUS st;
  if (which <= 1) {
    if (NHDR != 2 || !is_int_tok(HDR(1))) return BAD;
    n = h_i(HDR(1));
    if (n < 0 || n > 100000) return BAD;
  } else if (NHDR != 1) return BAD;
  type = parse_type(HDR(0));
  if (type < 0) return BAD;
  for (g = 0; g < np; g++) {
    if (GLEN(g) != n) return BAD;
    for (i = 0; i < n; i++)
      if (!val_ok(type, GW(g, i))) return BAD;
  }
  in = zalloc((size_t)n, 8);
  outv = zalloc((size_t)n, 8);
  for (i = 0; i < n; i++) val_store(type, GW(me, i), in, i);
  switch (which) {
    case 0: st = ref_mpi_sum(ref_mpi, in, outv, (REF_INT)n, type); break;
    case 1:
      st = ref_mpi_allsum(ref_mpi, in, (REF_INT)n, type);
      memcpy(outv, in, (size_t)n * 8);
      break;
    case 2: st = ref_mpi_min(ref_mpi, in, outv, type); break;
    default: st = ref_mpi_max(ref_mpi, in, outv, type); break;
  }
  put_status(st);
  if (REF_SUCCESS == st)
    for (i = 0; i < n; i++) val_print(type, outv, i);
  free(in);
  free(outv);
  return 0;
}

static int op_allminwho(void) {
  int g;
  long long n, i;
  REF_DBL *val;
  REF_INT *who;
  REF_STATUS st;
  if (NHDR != 1 || !is_int_tok(HDR(0))) return BAD;
  n = h_i(HDR(0));
  if (n < 0 || n > 100000) return BAD;
  for (g = 0; g < np; g++) {
    if (GLEN(g) != n) return BAD;
    for (i = 0; i < n; i++)
      if (!is_hex16(GW(g, i))) return BAD;
  }
  val = (REF_DBL *)zalloc((size_t)n, sizeof(REF_DBL));
  who = (REF_INT *)zalloc((size_t)n, sizeof(REF_INT));
  for (i = 0; i < n; i++) { val[i] = h_f(GW(me, i)); who[i] = -1; }
  st = ref_mpi_allminwho(ref_mpi, val, who, (REF_INT)n);
  put_status(st);
  if (REF_SUCCESS == st) {
    for (i = 0; i < n; i++) r_dbl(val[i]);
    r_put(";");
    for (i = 0; i < n; i++) r_ll(who[i]);
  }
  free(val);
  free(who);
  return 0;
}

static int op_bcast(void) {
  int type, g;
  long long n, i, m;
  void *buf;
  REF_STATUS st;
  if (NHDR != 2 || !is_int_tok(HDR(1))) return BAD;
  type = parse_type(HDR(0));
  n = h_i(HDR(1));
  if (type < 0 || n < 0) return BAD;
  for (g = 0; g < np; g++) {
    if (GLEN(g) < n) return BAD;
    for (i = 0; i < GLEN(g); i++)
      if (!val_ok(type, GW(g, i))) return BAD;
  }
  m = GLEN(me);
  buf = zalloc((size_t)m, esize(type));
  for (i = 0; i < m; i++) val_store(type, GW(me, i), buf, i);
  st = ref_mpi_bcast(ref_mpi, buf, (REF_INT)n, type);
  put_status(st);
  if (REF_SUCCESS == st)
    for (i = 0; i < m; i++) val_print(type, buf, i);
  free(buf);
  return 0;
}

static int check_values(int type) {
  int g, i;
  for (g = 0; g < np; g++)
    for (i = 0; i < GLEN(g); i++)
      if (!val_ok(type, GW(g, i))) return BAD;
  return 0;
}

static int op_scatter(void) {
  int type, p;
  long long i;
  REF_STATUS st = REF_SUCCESS;
  if (NHDR != 1) return BAD;
  type = parse_type(HDR(0));
  if (type < 0 || check_values(type)) return BAD;
  if (0 == me) {
    void *mine = zalloc((size_t)GLEN(0), esize(type));
    for (i = 0; i < GLEN(0); i++) val_store(type, GW(0, i), mine, i);
    for (p = 1; p < np && REF_SUCCESS == st; p++) {
      void *chunk = zalloc((size_t)GLEN(p), esize(type));
      for (i = 0; i < GLEN(p); i++) val_store(type, GW(p, i), chunk, i);
      st = ref_mpi_scatter_send(ref_mpi, chunk, GLEN(p), type, p);
      free(chunk);
    }
    put_status(st);
    if (REF_SUCCESS == st)
      for (i = 0; i < GLEN(0); i++) val_print(type, mine, i);
    free(mine);
  } else {
    void *buf = zalloc((size_t)GLEN(me), esize(type));
    st = ref_mpi_scatter_recv(ref_mpi, buf, GLEN(me), type);
    put_status(st);
    if (REF_SUCCESS == st)
      for (i = 0; i < GLEN(me); i++) val_print(type, buf, i);
    free(buf);
  }
  return 0;
}

static int op_gather(void) {
  int type, p;
  long long i, total = 0, off;
  REF_STATUS st = REF_SUCCESS;
  if (NHDR != 1) return BAD;
  type = parse_type(HDR(0));
  if (type < 0 || check_values(type)) return BAD;
  for (p = 0; p < np; p++) total += GLEN(p);
  if (0 == me) {
    char *buf = (char *)zalloc((size_t)total, esize(type));
    for (i = 0; i < GLEN(0); i++) val_store(type, GW(0, i), buf, i);
    off = GLEN(0);
    for (p = 1; p < np && REF_SUCCESS == st; p++) {
      st = ref_mpi_gather_recv(ref_mpi, buf + (size_t)off * esize(type), GLEN(p), type, p);
      off += GLEN(p);
    }
    put_status(st);
    if (REF_SUCCESS == st)
      for (i = 0; i < total; i++) val_print(type, buf, i);
    free(buf);
  } else {
    void *chunk = zalloc((size_t)GLEN(me), esize(type));
    for (i = 0; i < GLEN(me); i++) val_store(type, GW(me, i), chunk, i);
    st = ref_mpi_gather_send(ref_mpi, chunk, GLEN(me), type);
    put_status(st);
    free(chunk);
  }
  return 0;
}

static int op_selection(void) {
  int g, i;
  long long position;
  REF_DBL *el, value = 0.0;
  REF_STATUS st;
  if (NHDR != 1 || !is_int_tok(HDR(0)) || strlen(HDR(0)) > 15) return BAD;
  position = h_i(HDR(0));
  for (g = 0; g < np; g++)
    for (i = 0; i < GLEN(g); i++)
      if (!is_hex16(GW(g, i))) return BAD;
  el = (REF_DBL *)zalloc((size_t)GLEN(me), sizeof(REF_DBL));
  for (i = 0; i < GLEN(me); i++) el[i] = h_f(GW(me, i));
  st = ref_search_selection(ref_mpi, GLEN(me), el, (REF_LONG)position, &value);
  put_status(st);
  if (REF_SUCCESS == st) r_dbl(value);
  free(el);
  return 0;
}

/* `finddest n gid shares*n` (no groups): the static find_destination */
static int op_finddest(void) {
  long long n, gid;
  int i;
  REF_INT *shares, d;
  if (h_nw < 3 || !is_int_tok(h_w[1]) || !is_int_tok(h_w[2])) return BAD;
  n = h_i(h_w[1]);
  gid = h_i(h_w[2]);
  if (n < 1 || h_nw - 3 != n || strlen(h_w[2]) > 9) return BAD;
  for (i = 0; i < n; i++)
    if (!is_int_tok(h_w[3 + i]) || strlen(h_w[3 + i]) > 9) return BAD;
  shares = (REF_INT *)zalloc((size_t)n, sizeof(REF_INT));
  for (i = 0; i < n; i++) shares[i] = (REF_INT)h_i(h_w[3 + i]);
  d = find_destination((REF_INT)n, shares, (REF_INT)gid);
  r_ll(d);
  free(shares);
  return 0;
}

/* tokenise h_line in place (all ranks) */
static void tokenise(void) {
  char *p;
  h_nw = 0;
  for (p = strtok(h_line, " \t\r\n"); p && h_nw < H_MAXW; p = strtok(NULL, " \t\r\n")) h_w[h_nw++] = p;
}

int main(int argc, char *argv[]) {
  int fd;
  FILE *in = stdin;
  MPI_Init(&argc, &argv);
  if (REF_SUCCESS != ref_mpi_create(&ref_mpi)) return 3;
  me = ref_mpi_rank(ref_mpi);
  np = ref_mpi_n(ref_mpi);
  /* `--ops <file>`: rank 0 reads the op lines from a file instead of stdin (mpiexec's stdin forwarding of
     Open MPI 4.1.4 is not reliable for megabytes of input) */
  if (argc >= 3 && 0 == strcmp(argv[1], "--ops") && 0 == me) {
    in = fopen(argv[2], "r");
    if (!in) return 4;
  }
  fd = dup(1);
  out = fdopen(fd, "w");
  if (!freopen("/dev/null", "w", stdout)) return 3;
  signal(SIGALRM, on_alarm);
  for (;;) {
    int len = -1, rc, mylen, *lens = NULL, *offs = NULL, i;
    char *all = NULL;
    const char *op;
    if (0 == me) {
      for (;;) {
        char *p;
        if (!fgets(h_line, sizeof(h_line), in)) { len = -1; break; }
        p = h_line;
        while (*p == ' ' || *p == '\t') p++;
        if (*p == '#' || *p == '\n' || *p == '\r' || *p == 0) continue;
        len = (int)strlen(h_line);
        break;
      }
    }
    MPI_Bcast(&len, 1, MPI_INT, 0, MPI_COMM_WORLD);
    if (len < 0) break;
    MPI_Bcast(h_line, len + 1, MPI_CHAR, 0, MPI_COMM_WORLD);
    tokenise();
    if (h_nw == 0) continue;
    op = h_w[0];
    r_reset();
    r_put("");
    r_reset();
    /* no primitive of ref_mpi.c may depend on the reduce byte limit (only the gather/part loops chunk by it): alternate
       between the default and a limit of a few items, so that a primitive that starts to work in pieces is exercised
       with several pieces (the model knows nothing about the limit) */
    op_serial++;
    ref_mpi->reduce_byte_limit = (op_serial % 2) ? 1000000 : 40;
    alarm(10);
    if (0 == strcmp(op, "finddest")) {
      rc = op_finddest();
    } else if (h_nw < 2 || !is_int_tok(h_w[1]) || strlen(h_w[1]) > 6 || h_i(h_w[1]) != np || !split_groups() ||
               ng != np) {
      rc = BAD;
    } else if (0 == strcmp(op, "alltoallv")) rc = op_alltoallv();
    else if (0 == strcmp(op, "alltoall")) rc = op_alltoall();
    else if (0 == strcmp(op, "blindsend")) rc = op_blindsend();
    else if (0 == strcmp(op, "balance")) rc = op_balance();
    else if (0 == strcmp(op, "allgather")) rc = op_allgather();
    else if (0 == strcmp(op, "allgatherv")) rc = op_allgatherv();
    else if (0 == strcmp(op, "allconcat")) rc = op_allconcat();
    else if (0 == strcmp(op, "sum")) rc = op_reduce(0);
    else if (0 == strcmp(op, "allsum")) rc = op_reduce(1);
    else if (0 == strcmp(op, "min")) rc = op_reduce(2);
    else if (0 == strcmp(op, "max")) rc = op_reduce(3);
    else if (0 == strcmp(op, "allminwho")) rc = op_allminwho();
    else if (0 == strcmp(op, "bcast")) rc = op_bcast();
    else if (0 == strcmp(op, "scatter")) rc = op_scatter();
    else if (0 == strcmp(op, "gather")) rc = op_gather();
    else if (0 == strcmp(op, "selection")) rc = op_selection();
    else rc = BAD;
    alarm(0);
    if (rc == BAD || rc == HANG) { /* the same verdict on every rank: deterministic parse of the same line */
      if (0 == me) { fputs(rc == BAD ? "bad-op\n" : "hang\n", out); fflush(out); }
      continue;
    }
    if (0 == strcmp(op, "finddest")) {
      if (0 == me) { fprintf(out, "%s\n", res); fflush(out); }
      continue;
    }
    mylen = (int)res_n;
    if (0 == me) {
      lens = (int *)zalloc(np, sizeof(int));
      offs = (int *)zalloc(np, sizeof(int));
    }
    MPI_Gather(&mylen, 1, MPI_INT, lens, 1, MPI_INT, 0, MPI_COMM_WORLD);
    if (0 == me) {
      int tot = 0;
      for (i = 0; i < np; i++) { offs[i] = tot; tot += lens[i]; }
      all = (char *)zalloc((size_t)tot, 1);
    }
    MPI_Gatherv(res, mylen, MPI_CHAR, all, lens, offs, MPI_CHAR, 0, MPI_COMM_WORLD);
    if (0 == me) {
      for (i = 0; i < np; i++) {
        if (i) fputs(" | ", out);
        fwrite(all + offs[i], 1, (size_t)lens[i], out);
      }
      fputc('\n', out);
      fflush(out);
      free(all);
      free(lens);
      free(offs);
    }
  }
  fclose(out);
  ref_mpi_free(ref_mpi);
  MPI_Finalize();
  return 0;
}
