/* harness `gathermeshb` (MPI): the REAL parallel libMeshb writer, ref_gather_by_extension(ref_grid, "*.meshb")
 * = ref_gather_meshb -> ref_gather_node / ref_cell_ncell / ref_gather_cell / ref_gather_ngeom / ref_gather_geom,
 * on a distributed REF_GRID that every rank builds from ITS group of the op line.
 *
 *   gather_meshb np rbl mv twod N | <rank 0> | <rank 1> | ...
 *     <rank> = K (global part x y z)*K                 ref_node_add(global), ref_node_part, ref_node_xyz (bit patterns)
 *              NG (group nc (g*node_per [id])*nc)*NG    ref_cell_add on ref_grid_cell(ref_grid, group), local order =
 *                                                       line order; groups strictly increasing; id for edg/tri/qua kinds
 *              M (type node id gref p0 p1)*M            ref_geom_add(local(node), type, id, {p0,p1}) then ref_geom_gref =
 *                                                       gref (also for type 0: never written), in ref_geom index order
 *              CAD                                      `-` or hex: ref_geom_cad_data / _size of that rank
 *     rbl -> ref_mpi_reduce_byte_limit of the grid's ref_mpi, mv -> ref_grid_meshb_version, twod -> ref_grid_twod,
 *     N -> ref_node_initialize_n_global.
 *   -> `ok HEX` (all bytes of the file rank 0 wrote) | `<status>` | `hang` (chunk would be 0) | `bad-op`
 *   export_meshb <same arguments>   np = 1, vertices listed as global 0..N-1 in this order, all of part 0, rbl <= 0 or >= 32:
 *     the same grid through the SERIAL writer ref_export_by_extension("*.meshb") -> `ok HEX` | `<status>` | `bad-op`
 *
 * The line format and its validation are mirrored by lean/Drivers/GatherMeshb.lean (same `bad-op` conditions).
 * Under mpiexec only rank 0 reads the op lines (`--ops <file>` or stdin) and broadcasts them; only rank 0 prints.
 */
#include "h_proto.h"
#include <signal.h>
#include <unistd.h>
#ifdef HAVE_MPI
#include <mpi.h>
#endif

#include "ref_cell.h"
#include "ref_export.h"
#include "ref_gather.h"
#include "ref_geom.h"
#include "ref_grid.h"
#include "ref_malloc.h"
#include "ref_mpi.h"
#include "ref_node.h"

static FILE *out;
static int me, np;
static REF_MPI ref_mpi;

#define BAD 1
#define HANG 2

static int is_int_tok(const char *s) {
  if (*s == '-') s++;
  if (!*s) return 0;
  for (; *s; s++)
    if (*s < '0' || *s > '9') return 0;
  return 1;
}
static int is_nat_tok(const char *s) { return *s != '-' && is_int_tok(s) && strlen(s) <= 9; }
static int is_i32_tok(const char *s) {
  return is_int_tok(s) && strlen(s) <= 11 && h_i(s) <= 2147483647LL && h_i(s) >= -2147483648LL;
}
static int is_hex16(const char *s) {
  int i;
  for (i = 0; s[i]; i++)
    if (!((s[i] >= '0' && s[i] <= '9') || (s[i] >= 'a' && s[i] <= 'f') || (s[i] >= 'A' && s[i] <= 'F'))) return 0;
  return i == 16;
}
static int hexval(char c) {
  if (c >= '0' && c <= '9') return c - '0';
  if (c >= 'a' && c <= 'f') return c - 'a' + 10;
  if (c >= 'A' && c <= 'F') return c - 'A' + 10;
  return -1;
}

/* ---- groups (one per rank) ---- */
#define MAXG 64
static int g_lo[MAXG], g_hi[MAXG], ng, hdr_end;
static int split_groups(void) {
  int i;
  ng = 0;
  hdr_end = h_nw;
  for (i = 2; i < h_nw; i++) {
    if (0 == strcmp(h_w[i], "|")) {
      if (ng == 0) hdr_end = i;
      else g_hi[ng - 1] = i;
      if (ng >= MAXG) return 0;
      g_lo[ng] = i + 1;
      g_hi[ng] = h_nw;
      ng++;
    }
  }
  return 1;
}
#define GLEN(g) (g_hi[g] - g_lo[g])
#define GW(g, k) (h_w[g_lo[g] + (k)])
#define NHDR (hdr_end - 2)
#define HDR(k) (h_w[2 + (k)])

/* node_per / last_node_is_an_id of the 16 groups, taken from a scratch grid (the real ref_cell_initialize) */
static int node_per[REF_CELL_N_TYPE], last_id[REF_CELL_N_TYPE];

static int stored(int g, int k, long long global) {
  int l;
  for (l = 0; l < k; l++)
    if (h_i(GW(g, 1 + 5 * l)) == global) return 1;
  return 0;
}

/* validate group g; when `grid` is given (g == me) also build it.  0 ok */
static int do_group(int g, long long N, REF_GRID grid) {
  int k, i, j, p, ngr, m, last = -1;
  REF_NODE ref_node = grid ? ref_grid_node(grid) : NULL;
  if (GLEN(g) < 1 || !is_nat_tok(GW(g, 0))) return BAD;
  k = (int)h_i(GW(g, 0));
  if ((long long)1 + 5LL * k > GLEN(g)) return BAD;
  for (i = 0; i < k; i++) {
    if (!is_nat_tok(GW(g, 1 + 5 * i)) || !is_nat_tok(GW(g, 2 + 5 * i))) return BAD;
    for (j = 0; j < 3; j++)
      if (!is_hex16(GW(g, 3 + 5 * i + j))) return BAD;
    if (h_i(GW(g, 1 + 5 * i)) >= N) return BAD;
    for (j = 0; j < i; j++)
      if (h_i(GW(g, 1 + 5 * i)) == h_i(GW(g, 1 + 5 * j))) return BAD;
  }
  if (grid) {
    for (i = 0; i < k; i++) {
      REF_INT node;
      if (REF_SUCCESS != ref_node_add(ref_node, (REF_GLOB)h_i(GW(g, 1 + 5 * i)), &node)) return BAD;
      ref_node_part(ref_node, node) = (REF_INT)h_i(GW(g, 2 + 5 * i));
      for (j = 0; j < 3; j++) ref_node_xyz(ref_node, j, node) = h_f(GW(g, 3 + 5 * i + j));
    }
    if (REF_SUCCESS != ref_node_initialize_n_global(ref_node, (REF_GLOB)N)) return BAD;
  }
  p = 1 + 5 * k;
  /* cell groups */
  if (p >= GLEN(g) || !is_nat_tok(GW(g, p))) return BAD;
  ngr = (int)h_i(GW(g, p));
  p++;
  for (i = 0; i < ngr; i++) {
    int grp, nc, c, per, size;
    if (p + 2 > GLEN(g) || !is_nat_tok(GW(g, p)) || !is_nat_tok(GW(g, p + 1))) return BAD;
    grp = (int)h_i(GW(g, p));
    nc = (int)h_i(GW(g, p + 1));
    if (grp <= last || grp >= REF_CELL_N_TYPE) return BAD;
    last = grp;
    per = node_per[grp];
    size = per + (last_id[grp] ? 1 : 0);
    p += 2;
    for (c = 0; c < nc; c++) {
      REF_INT nodes[REF_CELL_MAX_SIZE_PER + 1], cell;
      if ((long long)p + size > GLEN(g)) return BAD;
      for (j = 0; j < per; j++)
        if (!is_nat_tok(GW(g, p + j)) || !stored(g, k, h_i(GW(g, p + j)))) return BAD;
      if (last_id[grp] && !is_i32_tok(GW(g, p + per))) return BAD;
      if (grid) {
        for (j = 0; j < per; j++)
          if (REF_SUCCESS != ref_node_local(ref_node, (REF_GLOB)h_i(GW(g, p + j)), &nodes[j])) return BAD;
        if (last_id[grp]) nodes[per] = (REF_INT)h_i(GW(g, p + per));
        if (REF_SUCCESS != ref_cell_add(ref_grid_cell(grid, grp), nodes, &cell)) return BAD;
      }
      p += size;
    }
  }
  /* geometry associations */
  if (p >= GLEN(g) || !is_nat_tok(GW(g, p))) return BAD;
  m = (int)h_i(GW(g, p));
  p++;
  if ((long long)p + 6LL * m > GLEN(g)) return BAD;
  for (i = 0; i < m; i++) {
    const char *t = GW(g, p + 6 * i);
    if (!is_nat_tok(t) || h_i(t) > 2) return BAD;
    if (!is_nat_tok(GW(g, p + 6 * i + 1)) || !stored(g, k, h_i(GW(g, p + 6 * i + 1)))) return BAD;
    if (!is_i32_tok(GW(g, p + 6 * i + 2)) || !is_i32_tok(GW(g, p + 6 * i + 3))) return BAD;
    if (!is_hex16(GW(g, p + 6 * i + 4)) || !is_hex16(GW(g, p + 6 * i + 5))) return BAD;
    for (j = 0; j < i; j++)
      if (h_i(GW(g, p + 6 * i)) == h_i(GW(g, p + 6 * j)) && h_i(GW(g, p + 6 * i + 1)) == h_i(GW(g, p + 6 * j + 1)) &&
          h_i(GW(g, p + 6 * i + 2)) == h_i(GW(g, p + 6 * j + 2)))
        return BAD;
  }
  if (grid) {
    REF_GEOM ref_geom = ref_grid_geom(grid);
    for (i = 0; i < m; i++) {
      REF_INT node, found, type = (REF_INT)h_i(GW(g, p + 6 * i)), id = (REF_INT)h_i(GW(g, p + 6 * i + 2));
      REF_DBL param[2];
      if (REF_SUCCESS != ref_node_local(ref_node, (REF_GLOB)h_i(GW(g, p + 6 * i + 1)), &node)) return BAD;
      param[0] = h_f(GW(g, p + 6 * i + 4));
      param[1] = h_f(GW(g, p + 6 * i + 5));
      if (REF_SUCCESS != ref_geom_add(ref_geom, node, type, id, param)) return BAD;
      if (REF_SUCCESS != ref_geom_find(ref_geom, node, type, id, &found)) return BAD;
      if (found != i) return BAD; /* ref_geom index order = line order (fresh ref_geom, no removal) */
      ref_geom_gref(ref_geom, found) = (REF_INT)h_i(GW(g, p + 6 * i + 3));
    }
  }
  p += 6 * m;
  /* CAD blob */
  if (p + 1 != GLEN(g)) return BAD;
  {
    const char *s = GW(g, p);
    size_t n = strlen(s), b;
    if (0 != strcmp(s, "-")) {
      if (n % 2) return BAD;
      for (b = 0; b < n; b++)
        if (hexval(s[b]) < 0) return BAD;
      if (grid && n > 0) {
        REF_GEOM ref_geom = ref_grid_geom(grid);
        REF_BYTE *data = (REF_BYTE *)malloc(n / 2);
        if (!data) return BAD;
        for (b = 0; b < n / 2; b++) data[b] = (REF_BYTE)(16 * hexval(s[2 * b]) + hexval(s[2 * b + 1]));
        ref_free(ref_geom_cad_data(ref_geom));
        ref_geom_cad_data(ref_geom) = data;
        ref_geom_cad_data_size(ref_geom) = (REF_SIZE)(n / 2);
      }
    }
  }
  return 0;
}

static char *res;
static size_t res_cap;

/* export_meshb: one rank, the vertices listed in global order 0..N-1, all owned by rank 0 (local index = global id) */
static int identity_world(long long N) {
  int i, k;
  if (1 != np || GLEN(0) < 1 || !is_nat_tok(GW(0, 0))) return 0;
  k = (int)h_i(GW(0, 0));
  if (k != N) return 0;
  for (i = 0; i < k; i++)
    if (h_i(GW(0, 1 + 5 * i)) != i || h_i(GW(0, 2 + 5 * i)) != 0) return 0;
  return 1;
}

static int op_gather_meshb(int serial) {
  long long rbl, mv, twod, N;
  int g, rc = 0;
  REF_GRID ref_grid = NULL;
  REF_STATUS st;
  char fname[64];
  if (NHDR != 4 || !is_i32_tok(HDR(0)) || !is_nat_tok(HDR(1)) || !is_nat_tok(HDR(2)) || !is_nat_tok(HDR(3))) return BAD;
  rbl = h_i(HDR(0));
  mv = h_i(HDR(1));
  twod = h_i(HDR(2));
  N = h_i(HDR(3));
  if (N > 100000 || mv > 4 || twod > 1) return BAD;
  for (g = 0; g < np; g++)
    if (do_group(g, N, NULL)) return BAD;
  if (serial && (!identity_world(N) || (rbl > 0 && rbl < 32) || N < 1)) return BAD;
  /* chunk = MIN(N/np+1, rbl>0 ? rbl/32 : INT_MAX) == 0 with N > 0: ref_gather_node's loop never advances */
  if (rbl > 0 && rbl / 32 == 0 && N > 0) return HANG;
  if (REF_SUCCESS != ref_grid_create(&ref_grid, ref_mpi)) return BAD;
  rc = do_group(me, N, ref_grid);
  snprintf(fname, sizeof fname, "h_gathermeshb_%d.meshb", (int)getppid());
  if (0 == me) remove(fname);
  if (!rc) {
    ref_grid_twod(ref_grid) = twod ? REF_TRUE : REF_FALSE;
    ref_grid_meshb_version(ref_grid) = (REF_INT)mv;
    ref_grid_mpi(ref_grid)->reduce_byte_limit = (REF_INT)rbl;
    st = serial ? ref_export_by_extension(ref_grid, fname) : ref_gather_by_extension(ref_grid, fname);
    if (0 == me) {
      if (REF_SUCCESS != st) {
        snprintf(res, res_cap, "%s", h_status((int)st));
      } else {
        FILE *f = fopen(fname, "rb");
        size_t n = 0;
        int c;
        if (!f) rc = BAD;
        else {
          memcpy(res, "ok ", 3);
          n = 3;
          while (EOF != (c = fgetc(f))) {
            if (n + 4 > res_cap) {
              res_cap *= 2;
              res = (char *)realloc(res, res_cap);
            }
            res[n++] = "0123456789abcdef"[(c >> 4) & 15];
            res[n++] = "0123456789abcdef"[c & 15];
          }
          res[n] = 0;
          fclose(f);
        }
      }
    }
  }
  if (0 == me) remove(fname);
  ref_grid_free(ref_grid);
  return rc;
}

static void tokenise(void) {
  char *p;
  h_nw = 0;
  for (p = strtok(h_line, " \t\r\n"); p && h_nw < H_MAXW; p = strtok(NULL, " \t\r\n")) h_w[h_nw++] = p;
}

static void on_alarm(int sig) {
  (void)sig;
  _exit(97);
}

int main(int argc, char *argv[]) {
  int fd, grp;
  FILE *in = stdin;
  REF_GRID scratch = NULL;
#ifdef HAVE_MPI
  MPI_Init(&argc, &argv);
#endif
  if (REF_SUCCESS != ref_mpi_create(&ref_mpi)) return 3;
  me = ref_mpi_rank(ref_mpi);
  np = ref_mpi_n(ref_mpi);
  if (argc >= 3 && 0 == strcmp(argv[1], "--ops") && 0 == me) {
    in = fopen(argv[2], "r");
    if (!in) return 4;
  }
  fd = dup(1);
  out = fdopen(fd, "w");
  if (!freopen("/dev/null", "w", stdout)) return 3;
  if (REF_SUCCESS != ref_grid_create(&scratch, ref_mpi)) return 3;
  for (grp = 0; grp < REF_CELL_N_TYPE; grp++) {
    node_per[grp] = ref_cell_node_per(ref_grid_cell(scratch, grp));
    last_id[grp] = ref_cell_last_node_is_an_id(ref_grid_cell(scratch, grp));
  }
  ref_grid_free(scratch);
  res_cap = 1 << 16;
  res = (char *)malloc(res_cap);
  signal(SIGALRM, on_alarm);
  for (;;) {
    int len = -1, rc;
    if (0 == me) {
      for (;;) {
        char *p;
        if (!fgets(h_line, sizeof(h_line), in)) {
          len = -1;
          break;
        }
        p = h_line;
        while (*p == ' ' || *p == '\t') p++;
        if (*p == '#' || *p == '\n' || *p == '\r' || *p == 0) continue;
        len = (int)strlen(h_line);
        break;
      }
    }
#ifdef HAVE_MPI
    MPI_Bcast(&len, 1, MPI_INT, 0, MPI_COMM_WORLD);
    if (len < 0) break;
    MPI_Bcast(h_line, len + 1, MPI_CHAR, 0, MPI_COMM_WORLD);
#else
    if (len < 0) break;
#endif
    tokenise();
    if (h_nw == 0) continue;
    res[0] = 0;
    alarm(60);
    if ((strcmp(h_w[0], "gather_meshb") && strcmp(h_w[0], "export_meshb")) || h_nw < 2 || !is_nat_tok(h_w[1]) || h_i(h_w[1]) != np || !split_groups() ||
        ng != np)
      rc = BAD;
    else
      rc = op_gather_meshb(0 == strcmp(h_w[0], "export_meshb"));
    alarm(0);
    if (0 == me) {
      if (rc == BAD) fputs("bad-op\n", out);
      else if (rc == HANG) fputs("hang\n", out);
      else fprintf(out, "%s\n", res);
      fflush(out);
    }
  }
  fclose(out);
  free(res);
  ref_mpi_free(ref_mpi);
#ifdef HAVE_MPI
  MPI_Finalize();
#endif
  return 0;
}
