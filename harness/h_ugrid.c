/* harness `ugrid`: the real binary AFLR3 UGRID writers and readers of refine (C08, C20)

   SUF is one of lb8.ugrid b8.ugrid lb8l.ugrid b8l.ugrid lb8.ugrid64 b8.ugrid64 (the file is hu_<pid>.SUF in the cwd).
   MESH  = n NS {-|X Y Z}*NS tri N {a b c tag}*N qua N {a b c d tag}*N tet N {4}*N pyr N {5}*N pri N {6}*N hex N {8}*N
           (NS node slots, `-` = slot removed again; node numbers are slot numbers)
   ops, one output line each:
     write SUF MESH        serial build: REF_GRID through the public API, ref_export_by_extension   -> ok HEX | <status>
     rt SUF MESH           the same, then ref_import_by_extension of that file                      -> ok <dump>
     read SUF HEX          child: ref_import_by_extension                                           -> ok <dump> | <status>
     readraw SWAP FAT HEX  child: static ref_import_bin_ugrid (white box; no boundary orientation)  -> ok <dump> | <status>
     partraw SUF HEX       child, serial build (one rank): ref_part_by_extension                    -> ok <pdump> | <status>
     robust_import SUF HEX | robust_translate SUF HEX | robust_part SUF HEX
                           child: import / import+export / part; prints `returned` when the C came back at all
     ascii_import EXPECT HEX
                           child: the bytes as hu_<pid>.ugrid (ASCII AFLR3) through ref_import_by_extension -> ok | refused
                           (EXPECT is what the generator's own parse predicts; the driver echoes it)
     part SUF NP HEX       all ranks: ref_part_by_extension of the file written by rank 0           -> ok <pdump> | <status>
     gather SUF NP N | K {g part X Y Z}*K tri C {g g g tag}*C qua C {..} tet C {..} pyr C {..} pri C {..} hex C {..} | ...
                           one group per rank: REF_GRID with these local nodes/cells, ref_gather_by_extension -> ok HEX
   <dump>  = n NN {x y z}*NN tri N {a b c tag}*N qua N {..} tet N {..} pyr N {..} pri N {..} hex N {..}  (0-based)
   <pdump> = n NN {x y z}*NN (owned nodes of all ranks by global) then per kind `KIND K rows` with the rows
             (globals.., tag) owned by some rank, sorted; `loc` np*6 local cell counts; `nloc` np local node counts
   A child that dies prints `crash <why>`, one still running after the limit `timeout`; a robust_ op whose child touched
   more than 300 MB prints `bloat`.  refine's own diagnostics on stdout go to /dev/null.
   argv: [--limit S] [--ops FILE]
*/
#include "h_proto.h"

#include <errno.h>
#include <signal.h>
#include <sys/resource.h>
#include <sys/time.h>
#include <sys/types.h>
#include <sys/wait.h>
#include <unistd.h>
#ifdef HAVE_MPI
#include <mpi.h>
#endif

#include "ref_import.c" /* white box: static ref_import_bin_ugrid */

#include "ref_export.h"
#include "ref_gather.h"
#include "ref_grid.h"
#include "ref_mpi.h"
#include "ref_node.h"
#include "ref_part.h"

#if defined(__SANITIZE_ADDRESS__)
#define H_ASAN 1
const char *__asan_default_options(void);
const char *__asan_default_options(void) {
  /* a malloc above 1 GiB returns NULL (the model's Cfg.allocCap) instead of reserving it */
  return "max_allocation_size_mb=1024:allocator_may_return_null=1:detect_leaks=0";
}
#else
#define H_ASAN 0
#endif

#define BLOAT_KB (300L * 1024L)
static FILE *out;
static REF_MPI mpi;
static int me, np;
static int limit_s = 10;
static char fname[96];

static const char *sufs[] = {"lb8.ugrid", "b8.ugrid", "lb8l.ugrid", "b8l.ugrid", "lb8.ugrid64", "b8.ugrid64"};
static const char *knames[] = {"tri", "qua", "tet", "pyr", "pri", "hex"};
static const int kper[] = {3, 4, 4, 5, 6, 8};
static const int ktag[] = {1, 1, 0, 0, 0, 0};
static REF_CELL kcell(REF_GRID g, int k) {
  switch (k) {
    case 0: return ref_grid_tri(g);
    case 1: return ref_grid_qua(g);
    case 2: return ref_grid_tet(g);
    case 3: return ref_grid_pyr(g);
    case 4: return ref_grid_pri(g);
    default: return ref_grid_hex(g);
  }
}
static int suf_ok(const char *s) {
  int i;
  for (i = 0; i < 6; i++)
    if (0 == strcmp(s, sufs[i])) return 1;
  return 0;
}

/* growing output buffer */
static char *ob;
static size_t ob_n, ob_cap;
static void ob_reset(void) {
  ob_n = 0;
  if (ob) ob[0] = 0;
}
static void ob_put(const char *s) {
  size_t l = strlen(s);
  if (ob_n + l + 1 > ob_cap) {
    ob_cap = 2 * (ob_n + l + 1) + 1024;
    ob = (char *)realloc(ob, ob_cap);
    if (!ob) _exit(7);
  }
  memcpy(ob + ob_n, s, l + 1);
  ob_n += l;
}
static void ob_int(long long v) {
  char b[32];
  snprintf(b, sizeof b, " %lld", v);
  ob_put(b);
}
static void ob_bits(unsigned long long u) {
  char b[32];
  if (((u >> 52) & 0x7ff) == 0x7ff && (u & 0xfffffffffffffULL)) { ob_put(" nan"); return; }
  snprintf(b, sizeof b, " %016llx", u);
  ob_put(b);
}
static void ob_dbl(double d) {
  unsigned long long u;
  memcpy(&u, &d, 8);
  ob_bits(u);
}
static void ob_hex(const unsigned char *p, size_t n) {
  static const char *hx = "0123456789abcdef";
  size_t i;
  char b[3];
  b[2] = 0;
  if (0 == n) { ob_put("-"); return; }
  for (i = 0; i < n; i++) {
    b[0] = hx[p[i] >> 4];
    b[1] = hx[p[i] & 15];
    ob_put(b);
  }
}
static int hexval(int c) {
  if (c >= '0' && c <= '9') return c - '0';
  if (c >= 'a' && c <= 'f') return c - 'a' + 10;
  if (c >= 'A' && c <= 'F') return c - 'A' + 10;
  return -1;
}
static unsigned char *unhex(const char *s, size_t *n) {
  size_t l = strlen(s), i;
  unsigned char *p;
  if (0 == strcmp(s, "-")) { *n = 0; return (unsigned char *)malloc(1); }
  if (l % 2) return NULL;
  p = (unsigned char *)malloc(l / 2 + 1);
  for (i = 0; i < l / 2; i++) {
    int a = hexval(s[2 * i]), b = hexval(s[2 * i + 1]);
    if (a < 0 || b < 0) { free(p); return NULL; }
    p[i] = (unsigned char)(16 * a + b);
  }
  *n = l / 2;
  return p;
}
static int spit(const char *name, const unsigned char *p, size_t n) {
  FILE *f = fopen(name, "wb");
  if (!f) return 1;
  if (n && n != fwrite(p, 1, n, f)) { fclose(f); return 1; }
  fclose(f);
  return 0;
}
static unsigned char *slurp(const char *name, size_t *n) {
  FILE *f = fopen(name, "rb");
  long l;
  unsigned char *p;
  if (!f) return NULL;
  fseek(f, 0, SEEK_END);
  l = ftell(f);
  fseek(f, 0, SEEK_SET);
  p = (unsigned char *)malloc((size_t)l + 1);
  if (l && (size_t)l != fread(p, 1, (size_t)l, f)) { fclose(f); free(p); return NULL; }
  fclose(f);
  *n = (size_t)l;
  return p;
}
static int is_int(const char *s) {
  if (*s == '-') s++;
  if (!*s || strlen(s) > 18) return 0;
  for (; *s; s++)
    if (*s < '0' || *s > '9') return 0;
  return 1;
}
static int is_f(const char *s) {
  size_t i;
  if (16 != strlen(s)) return 0;
  for (i = 0; i < 16; i++)
    if (hexval(s[i]) < 0) return 0;
  return 1;
}
static int in_i32(long long v) { return v >= -2147483647LL - 1 && v <= 2147483647LL; }

#define BADOP                \
  {                          \
    ob_reset();              \
    ob_put("bad-op");        \
    goto done;               \
  }
#define ST(s)                     \
  {                               \
    ob_reset();                   \
    ob_put(h_status((int)(s)));   \
    goto done;                    \
  }

/* ---------------------------------------------------------------- dumps */
static void dump_grid(REF_GRID grid) {
  REF_NODE node = ref_grid_node(grid);
  REF_INT n, c, j, k;
  ob_put("ok n");
  ob_int(ref_node_n(node));
  each_ref_node_valid_node(node, n) {
    ob_dbl(ref_node_xyz(node, 0, n));
    ob_dbl(ref_node_xyz(node, 1, n));
    ob_dbl(ref_node_xyz(node, 2, n));
  }
  for (k = 0; k < 6; k++) {
    REF_CELL cell = kcell(grid, k);
    ob_put(" ");
    ob_put(knames[k]);
    ob_int(ref_cell_n(cell));
    each_ref_cell_valid_cell(cell, c) for (j = 0; j < ref_cell_size_per(cell); j++) ob_int(ref_cell_c2n(cell, j, c));
  }
}

/* concatenation (rank order) of every rank's `n` values on rank 0; NULL elsewhere */
static long long *gather_ll(const long long *mine, int n, int *total) {
#ifdef HAVE_MPI
  int *cnt = NULL, *dsp = NULL, i;
  long long *all = NULL;
  if (0 == me) {
    cnt = (int *)calloc((size_t)np, sizeof(int));
    dsp = (int *)calloc((size_t)np, sizeof(int));
  }
  MPI_Gather(&n, 1, MPI_INT, cnt, 1, MPI_INT, 0, MPI_COMM_WORLD);
  *total = 0;
  if (0 == me) {
    for (i = 0; i < np; i++) {
      dsp[i] = *total;
      *total += cnt[i];
    }
    all = (long long *)malloc(sizeof(long long) * (size_t)(*total + 1));
  }
  MPI_Gatherv((void *)mine, n, MPI_LONG_LONG, all, cnt, dsp, MPI_LONG_LONG, 0, MPI_COMM_WORLD);
  free(cnt);
  free(dsp);
  return all;
#else
  long long *all = (long long *)malloc(sizeof(long long) * (size_t)(n + 1));
  memcpy(all, mine, sizeof(long long) * (size_t)n);
  *total = n;
  return all;
#endif
}
static int row_w;
static int cmp_rows(const void *a, const void *b) {
  const long long *x = (const long long *)a, *y = (const long long *)b;
  int i;
  for (i = 0; i < row_w; i++) {
    if (x[i] < y[i]) return -1;
    if (x[i] > y[i]) return 1;
  }
  return 0;
}

/* the distributed grid after ref_part_by_extension, rank-count independent form (collective; rank 0 fills ob) */
static void dump_part(REF_GRID grid) {
  REF_NODE node = ref_grid_node(grid);
  REF_INT n, c, j, k, part;
  long long *mine, *all;
  int cnt, total, i;
  /* owned nodes: global, x, y, z */
  mine = (long long *)malloc(sizeof(long long) * (size_t)(4 * ref_node_n(node) + 4));
  cnt = 0;
  each_ref_node_valid_node(node, n) {
    if (ref_node_owned(node, n)) {
      mine[cnt++] = (long long)ref_node_global(node, n);
      for (j = 0; j < 3; j++) {
        double d = ref_node_xyz(node, j, n);
        memcpy(&mine[cnt++], &d, 8);
      }
    }
  }
  all = gather_ll(mine, cnt, &total);
  free(mine);
  if (0 == me) {
    int good = 1;
    row_w = 1;
    qsort(all, (size_t)(total / 4), 4 * sizeof(long long), cmp_rows);
    for (i = 0; i < total / 4; i++)
      if (all[4 * i] != i) good = 0;
    ob_put(good ? "ok n" : "ok globals-not-0..n-1 n");
    ob_int(total / 4);
    for (i = 0; i < total / 4; i++)
      for (j = 1; j < 4; j++) ob_bits((unsigned long long)all[4 * i + j]);
  }
  free(all);
  for (k = 0; k < 6; k++) {
    REF_CELL cell = kcell(grid, k);
    int w = ref_cell_size_per(cell);
    mine = (long long *)malloc(sizeof(long long) * (size_t)(w * ref_cell_n(cell) + w));
    cnt = 0;
    each_ref_cell_valid_cell(cell, c) {
      if (REF_SUCCESS != ref_cell_part(cell, node, c, &part)) part = -1;
      if (part != me) continue;
      for (j = 0; j < ref_cell_node_per(cell); j++) mine[cnt++] = (long long)ref_node_global(node, ref_cell_c2n(cell, j, c));
      for (j = ref_cell_node_per(cell); j < w; j++) mine[cnt++] = (long long)ref_cell_c2n(cell, j, c);
    }
    all = gather_ll(mine, cnt, &total);
    free(mine);
    if (0 == me) {
      row_w = w;
      qsort(all, (size_t)(total / w), (size_t)w * sizeof(long long), cmp_rows);
      ob_put(" ");
      ob_put(knames[k]);
      ob_int(total / w);
      for (i = 0; i < total; i++) ob_int(all[i]);
    }
    free(all);
  }
  {
    long long loc[6];
    for (k = 0; k < 6; k++) loc[k] = ref_cell_n(kcell(grid, k));
    all = gather_ll(loc, 6, &total);
    if (0 == me) {
      ob_put(" loc");
      for (i = 0; i < total; i++) ob_int(all[i]);
    }
    free(all);
    loc[0] = ref_node_n(node);
    all = gather_ll(loc, 1, &total);
    if (0 == me) {
      ob_put(" nloc");
      for (i = 0; i < total; i++) ob_int(all[i]);
    }
    free(all);
  }
}

/* ---------------------------------------------------------------- MESH -> REF_GRID (serial) */
static REF_GRID build_mesh(int k0) {
  REF_GRID grid = NULL;
  REF_NODE node;
  int k = k0, i, ns, kd;
  char *live = NULL;
  if (k + 2 > h_nw || strcmp(h_w[k], "n") || !is_int(h_w[k + 1])) return NULL;
  ns = (int)h_i(h_w[k + 1]);
  if (ns < 0 || ns > 60000) return NULL;
  if (REF_SUCCESS != ref_grid_create(&grid, mpi)) return NULL;
  node = ref_grid_node(grid);
  live = (char *)calloc((size_t)ns + 1, 1);
  k += 2;
  for (i = 0; i < ns; i++) {
    REF_INT local;
    if (k >= h_nw) goto bad;
    if (REF_SUCCESS != ref_node_add(node, i, &local) || local != i) goto bad;
    if (0 == strcmp(h_w[k], "-")) {
      k++;
      continue;
    }
    if (k + 3 > h_nw || !is_f(h_w[k]) || !is_f(h_w[k + 1]) || !is_f(h_w[k + 2])) goto bad;
    ref_node_xyz(node, 0, local) = h_f(h_w[k]);
    ref_node_xyz(node, 1, local) = h_f(h_w[k + 1]);
    ref_node_xyz(node, 2, local) = h_f(h_w[k + 2]);
    live[i] = 1;
    k += 3;
  }
  for (i = 0; i < ns; i++)
    if (!live[i] && REF_SUCCESS != ref_node_remove(node, i)) goto bad;
  for (kd = 0; kd < 6; kd++) {
    REF_CELL cell = kcell(grid, kd);
    int nc, c, j, w = kper[kd] + ktag[kd];
    if (k + 2 > h_nw || strcmp(h_w[k], knames[kd]) || !is_int(h_w[k + 1])) goto bad;
    nc = (int)h_i(h_w[k + 1]);
    k += 2;
    if (nc < 0 || (long long)k + (long long)nc * w > h_nw) goto bad;
    for (c = 0; c < nc; c++) {
      REF_INT nodes[REF_CELL_MAX_SIZE_PER], newc;
      for (j = 0; j < w; j++) {
        long long v;
        if (!is_int(h_w[k + j])) goto bad;
        v = h_i(h_w[k + j]);
        if (!in_i32(v)) goto bad;
        if (j < kper[kd] && (v < 0 || v >= ns || !live[v])) goto bad;
        nodes[j] = (REF_INT)v;
      }
      if (REF_SUCCESS != ref_cell_add(cell, nodes, &newc)) goto bad;
      k += w;
    }
  }
  if (k != h_nw) goto bad;
  free(live);
  return grid;
bad:
  free(live);
  ref_grid_free(grid);
  return NULL;
}

static void op_write(int roundtrip) {
  REF_GRID grid = NULL, back = NULL;
  REF_STATUS s;
  unsigned char *bytes = NULL;
  size_t nb = 0;
  ob_reset();
  if (np != 1 || h_nw < 3 || !suf_ok(h_w[1])) BADOP;
  snprintf(fname, sizeof fname, "hu_%ld.%s", (long)getpid(), h_w[1]);
  grid = build_mesh(2);
  if (!grid) BADOP;
  s = ref_export_by_extension(grid, fname);
  if (REF_SUCCESS != s) ST(s);
  if (roundtrip) {
    s = ref_import_by_extension(&back, mpi, fname);
    if (REF_SUCCESS != s) ST(s);
    dump_grid(back);
    goto done;
  }
  bytes = slurp(fname, &nb);
  if (!bytes) BADOP;
  ob_put("ok ");
  ob_hex(bytes, nb);
done:
  free(bytes);
  unlink(fname);
  if (grid) ref_grid_free(grid);
  if (back) ref_grid_free(back);
}

/* ---------------------------------------------------------------- readers in a child */
/* kind: 0 read (by extension)  1 readraw  2 partraw  3 robust_import 4 robust_translate 5 robust_part 6 ascii_import */
static void child_read(int kind, int swap, int fat, const unsigned char *bytes, size_t nb) {
  REF_GRID grid = NULL;
  REF_STATUS s;
  char out_name[112];
  ob_reset();
  if (spit(fname, bytes, nb)) { ob_put("bad-op"); return; }
  switch (kind) {
    case 0:
    case 3:
      s = ref_import_by_extension(&grid, mpi, fname);
      if (REF_SUCCESS != s) { ob_put(h_status((int)s)); return; }
      dump_grid(grid);
      break;
    case 1:
      s = ref_import_bin_ugrid(&grid, mpi, fname, (REF_BOOL)swap, (REF_BOOL)fat);
      if (REF_SUCCESS != s) { ob_put(h_status((int)s)); return; }
      dump_grid(grid);
      break;
    case 6:
      s = ref_import_by_extension(&grid, mpi, fname);
      ob_put(REF_SUCCESS == s ? "ok" : "refused");
      break;
    case 2:
    case 5:
      s = ref_part_by_extension(&grid, mpi, fname);
      if (REF_SUCCESS != s) { ob_put(h_status((int)s)); return; }
      dump_part(grid);
      break;
    default:
      s = ref_import_by_extension(&grid, mpi, fname);
      if (REF_SUCCESS != s) { ob_put(h_status((int)s)); return; }
      snprintf(out_name, sizeof out_name, "o%s", fname);
      s = ref_export_by_extension(grid, out_name);
      unlink(out_name);
      ob_put(h_status((int)s));
      break;
  }
}

static const char *signame(int sig) {
  switch (sig) {
    case SIGSEGV: return "SIGSEGV";
    case SIGBUS: return "SIGBUS";
    case SIGFPE: return "SIGFPE";
    case SIGABRT: return "SIGABRT";
    case SIGKILL: return "SIGKILL";
    case SIGILL: return "SIGILL";
    default: return "signal";
  }
}

static void op_child(int kind) {
  int fd[2], status = 0, swap = 0, fat = 0, robust = (kind >= 3 && kind <= 5);
  struct rusage ru;
  pid_t pid;
  unsigned char *bytes = NULL;
  size_t nb = 0;
  char out_name[112];
  ob_reset();
  if (np != 1) { ob_put("bad-op"); return; }
  if (1 == kind) {
    if (h_nw != 4 || !is_int(h_w[1]) || !is_int(h_w[2])) { ob_put("bad-op"); return; }
    swap = (int)h_i(h_w[1]);
    fat = (int)h_i(h_w[2]);
    if (swap < 0 || swap > 1 || fat < 0 || fat > 1) { ob_put("bad-op"); return; }
    snprintf(fname, sizeof fname, "hu_%ld.raw", (long)getpid());
    bytes = unhex(h_w[3], &nb);
  } else if (6 == kind) {
    if (h_nw != 3 || (strcmp(h_w[1], "ok") && strcmp(h_w[1], "refused"))) { ob_put("bad-op"); return; }
    snprintf(fname, sizeof fname, "hu_%ld.ugrid", (long)getpid());
    bytes = unhex(h_w[2], &nb);
  } else {
    if (h_nw != 3 || !suf_ok(h_w[1])) { ob_put("bad-op"); return; }
    snprintf(fname, sizeof fname, "hu_%ld.%s", (long)getpid(), h_w[1]);
    bytes = unhex(h_w[2], &nb);
  }
  if (!bytes) { ob_put("bad-op"); return; }
  snprintf(out_name, sizeof out_name, "o%s", fname);
  if (0 != pipe(fd)) { ob_put("bad-op"); free(bytes); return; }
  fflush(out);
  pid = fork();
  if (0 == pid) {
    size_t w = 0;
    close(fd[0]);
    alarm((unsigned)limit_s);
    if (!H_ASAN) {
      struct rlimit rl;
      rl.rlim_cur = rl.rlim_max = (rlim_t)1 << 30;
      setrlimit(RLIMIT_AS, &rl);
    }
    child_read(kind, swap, fat, bytes, nb);
    while (w < ob_n) {
      ssize_t r = write(fd[1], ob + w, ob_n - w);
      if (r <= 0) break;
      w += (size_t)r;
    }
    close(fd[1]);
    unlink(fname);
    _exit(0);
  }
  free(bytes);
  close(fd[1]);
  {
    char buf[65536];
    ssize_t r;
    while ((r = read(fd[0], buf, sizeof buf - 1)) > 0) {
      buf[r] = 0;
      ob_put(buf);
    }
    close(fd[0]);
  }
  if (pid < 0 || wait4(pid, &status, 0, &ru) < 0) { ob_reset(); ob_put("bad-op"); return; }
  unlink(fname);
  unlink(out_name);
  if (WIFSIGNALED(status)) {
    ob_reset();
    if (SIGALRM == WTERMSIG(status)) ob_put("timeout");
    else { ob_put("crash "); ob_put(signame(WTERMSIG(status))); }
  } else if (WIFEXITED(status) && 0 != WEXITSTATUS(status)) {
    int c = WEXITSTATUS(status);
    ob_reset();
    ob_put(99 == c ? "crash asan" : 98 == c ? "crash ubsan" : "crash exit");
  } else if (robust) {
    ob_reset();
    if (ru.ru_maxrss > BLOAT_KB) ob_put("bloat");
    else ob_put("returned");
  }
}

/* ---------------------------------------------------------------- parallel reader (all ranks) */
static void op_part(void) {
  REF_GRID grid = NULL;
  REF_STATUS s;
  unsigned char *bytes = NULL;
  size_t nb = 0;
  int bad = 0;
  long ppid = (long)getppid();
  ob_reset();
  if (h_nw != 4 || !suf_ok(h_w[1]) || !is_int(h_w[2]) || h_i(h_w[2]) != np) { ob_put("bad-op"); return; }
  /* every rank computes the same name: the parent is the same mpiexec (or the shell in the serial build) */
  snprintf(fname, sizeof fname, "hu_p%ld.%s", ppid, h_w[1]);
  if (0 == me) {
    bytes = unhex(h_w[3], &nb);
    if (!bytes || spit(fname, bytes, nb)) bad = 1;
    free(bytes);
  }
#ifdef HAVE_MPI
  MPI_Bcast(&bad, 1, MPI_INT, 0, MPI_COMM_WORLD);
#endif
  if (bad) { ob_put("bad-op"); return; }
  s = ref_part_by_extension(&grid, mpi, fname);
#ifdef HAVE_MPI
  MPI_Barrier(MPI_COMM_WORLD);
#endif
  if (0 == me) unlink(fname);
  if (REF_SUCCESS != s) {
    ob_put(h_status((int)s));
    if (grid) ref_grid_free(grid);
    return;
  }
  dump_part(grid);
  ref_grid_free(grid);
}

/* ---------------------------------------------------------------- parallel writer (all ranks) */
#define MAXG 64
static int g_lo[MAXG], g_hi[MAXG], ng, hdr_end;
static int split_groups(void) {
  int i;
  ng = 0;
  hdr_end = h_nw;
  for (i = 1; i < h_nw; i++) {
    if (0 == strcmp(h_w[i], "|")) {
      if (ng == 0) hdr_end = i;
      else g_hi[ng - 1] = i;
      if (ng >= MAXG) return 0;
      g_lo[ng++] = i + 1;
    }
  }
  if (ng > 0) g_hi[ng - 1] = h_nw;
  return 1;
}

static void op_gather(void) {
  REF_GRID grid = NULL;
  REF_NODE node;
  REF_STATUS s;
  long long N;
  int k, kk, kd, i, j, lo, hi, bad = 0, allbad = 0;
  long ppid = (long)getppid();
  unsigned char *bytes = NULL;
  size_t nb = 0;
  ob_reset();
  if (h_nw < 4 || !suf_ok(h_w[1]) || !is_int(h_w[2]) || h_i(h_w[2]) != np || !is_int(h_w[3]) || !split_groups() ||
      ng != np || hdr_end != 4) {
    ob_put("bad-op");
    return;
  }
  N = h_i(h_w[3]);
  if (N < 0 || N > 100000) { ob_put("bad-op"); return; }
  /* validate EVERY group on every rank (so that all ranks agree on bad-op) */
  for (i = 0; i < np && !bad; i++) {
    lo = g_lo[i];
    hi = g_hi[i];
    if (lo >= hi || !is_int(h_w[lo])) { bad = 1; break; }
    k = (int)h_i(h_w[lo]);
    if (k < 0 || lo + 1 + 5 * k > hi) { bad = 1; break; }
    for (j = 0; j < k && !bad; j++) {
      const char **w = (const char **)&h_w[lo + 1 + 5 * j];
      int jj;
      if (!is_int(w[0]) || !is_int(w[1]) || !is_f(w[2]) || !is_f(w[3]) || !is_f(w[4])) bad = 1;
      else if (h_i(w[0]) < 0 || h_i(w[0]) >= N || h_i(w[1]) < 0 || h_i(w[1]) >= np) bad = 1;
      for (jj = 0; jj < j && !bad; jj++)
        if (h_i(h_w[lo + 1 + 5 * jj]) == h_i(w[0])) bad = 1;
    }
    kk = lo + 1 + 5 * k;
    for (kd = 0; kd < 6 && !bad; kd++) {
      int nc, w = kper[kd] + ktag[kd], c;
      if (kk + 2 > hi || strcmp(h_w[kk], knames[kd]) || !is_int(h_w[kk + 1])) { bad = 1; break; }
      nc = (int)h_i(h_w[kk + 1]);
      kk += 2;
      if (nc < 0 || (long long)kk + (long long)nc * w > hi) { bad = 1; break; }
      for (c = 0; c < nc && !bad; c++, kk += w)
        for (j = 0; j < w && !bad; j++) {
          if (!is_int(h_w[kk + j]) || !in_i32(h_i(h_w[kk + j]))) bad = 1;
          else if (j < kper[kd]) {
            int jj, found = 0;
            for (jj = 0; jj < k; jj++)
              if (h_i(h_w[lo + 1 + 5 * jj]) == h_i(h_w[kk + j])) found = 1;
            if (!found) bad = 1;
          }
        }
    }
    if (!bad && kk != hi) bad = 1;
  }
  if (bad) { ob_put("bad-op"); return; }
  if (REF_SUCCESS != ref_grid_create(&grid, mpi)) { ob_put("bad-op"); return; }
  node = ref_grid_node(grid);
  lo = g_lo[me];
  k = (int)h_i(h_w[lo]);
  for (j = 0; j < k && !bad; j++) {
    REF_INT local;
    char **w = &h_w[lo + 1 + 5 * j];
    if (REF_SUCCESS != ref_node_add(node, (REF_GLOB)h_i(w[0]), &local)) { bad = 1; break; }
    ref_node_part(node, local) = (REF_INT)h_i(w[1]);
    ref_node_xyz(node, 0, local) = h_f(w[2]);
    ref_node_xyz(node, 1, local) = h_f(w[3]);
    ref_node_xyz(node, 2, local) = h_f(w[4]);
  }
  if (!bad && REF_SUCCESS != ref_node_initialize_n_global(node, (REF_GLOB)N)) bad = 1;
  kk = lo + 1 + 5 * k;
  for (kd = 0; kd < 6 && !bad; kd++) {
    REF_CELL cell = kcell(grid, kd);
    int nc = (int)h_i(h_w[kk + 1]), w = kper[kd] + ktag[kd], c;
    kk += 2;
    for (c = 0; c < nc && !bad; c++, kk += w) {
      REF_INT nodes[REF_CELL_MAX_SIZE_PER], newc, local;
      for (j = 0; j < w; j++) {
        if (j < kper[kd]) {
          if (REF_SUCCESS != ref_node_local(node, (REF_GLOB)h_i(h_w[kk + j]), &local)) bad = 1;
          nodes[j] = local;
        } else
          nodes[j] = (REF_INT)h_i(h_w[kk + j]);
      }
      if (!bad && REF_SUCCESS != ref_cell_add(cell, nodes, &newc)) bad = 1;
    }
  }
  allbad = bad;
#ifdef HAVE_MPI
  MPI_Allreduce(&bad, &allbad, 1, MPI_INT, MPI_MAX, MPI_COMM_WORLD);
#endif
  if (allbad) {
    ob_put("bad-op");
    ref_grid_free(grid);
    return;
  }
  snprintf(fname, sizeof fname, "hu_g%ld.%s", ppid, h_w[1]);
  s = ref_gather_by_extension(grid, fname);
#ifdef HAVE_MPI
  MPI_Barrier(MPI_COMM_WORLD);
#endif
  if (0 == me) {
    if (REF_SUCCESS != s) ob_put(h_status((int)s));
    else {
      bytes = slurp(fname, &nb);
      if (!bytes) ob_put("bad-op");
      else {
        ob_put("ok ");
        ob_hex(bytes, nb);
      }
      free(bytes);
    }
    unlink(fname);
  }
  ref_grid_free(grid);
}

static void tokenise(void) {
  char *p;
  h_nw = 0;
  for (p = strtok(h_line, " \t\r\n"); p && h_nw < H_MAXW; p = strtok(NULL, " \t\r\n")) h_w[h_nw++] = p;
}

int main(int argc, char **argv) {
  int fd, a;
  FILE *in = stdin;
#ifdef HAVE_MPI
  MPI_Init(&argc, &argv);
#endif
  if (REF_SUCCESS != ref_mpi_create(&mpi)) return 3;
  me = ref_mpi_rank(mpi);
  np = ref_mpi_n(mpi);
  for (a = 1; a + 1 < argc; a += 2) {
    if (0 == strcmp(argv[a], "--limit")) limit_s = atoi(argv[a + 1]);
    else if (0 == strcmp(argv[a], "--ops") && 0 == me) {
      in = fopen(argv[a + 1], "r");
      if (!in) return 4;
    }
  }
  if (limit_s < 1) limit_s = 1;
  fd = dup(1);
  out = fdopen(fd, "w");
  if (!out || !freopen("/dev/null", "w", stdout)) return 3;
  for (;;) {
    int len = -1;
    const char *op;
    if (0 == me) {
      for (;;) {
        char *p;
        if (!fgets(h_line, sizeof(h_line), in)) {
          len = -1;
          break;
        }
        p = h_line;
        while (*p == ' ' || *p == '\t') p++;
        if (*p == '#' || *p == '\n' || *p == '\r' || *p == 0) continue;
        len = (int)strlen(h_line);
        break;
      }
    }
#ifdef HAVE_MPI
    MPI_Bcast(&len, 1, MPI_INT, 0, MPI_COMM_WORLD);
    if (len < 0) break;
    MPI_Bcast(h_line, len + 1, MPI_CHAR, 0, MPI_COMM_WORLD);
#else
    if (len < 0) break;
#endif
    tokenise();
    if (h_nw == 0) continue;
    op = h_w[0];
    ob_reset();
    if (0 == strcmp(op, "write")) op_write(0);
    else if (0 == strcmp(op, "rt")) op_write(1);
    else if (0 == strcmp(op, "read")) op_child(0);
    else if (0 == strcmp(op, "readraw")) op_child(1);
    else if (0 == strcmp(op, "partraw")) op_child(2);
    else if (0 == strcmp(op, "robust_import")) op_child(3);
    else if (0 == strcmp(op, "robust_translate")) op_child(4);
    else if (0 == strcmp(op, "robust_part")) op_child(5);
    else if (0 == strcmp(op, "ascii_import")) op_child(6);
    else if (0 == strcmp(op, "part")) op_part();
    else if (0 == strcmp(op, "gather")) op_gather();
    else ob_put("bad-op");
    if (0 == me) {
      fputs(ob_n ? ob : "bad-op", out);
      fputc('\n', out);
      fflush(out);
    }
  }
  fclose(out);
  ref_mpi_free(mpi);
#ifdef HAVE_MPI
  MPI_Finalize();
#endif
  return 0;
}
