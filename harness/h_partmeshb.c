/* harness `partmeshb` (MPI): the parallel libMeshb reader ref_part_by_extension -> ref_part_meshb (C20 / C08 / C06).
 *
 * Only rank 0 reads the op lines (stdin, or `--ops <file>`); every op line is broadcast.  Result lines go to
 * stdout, or are appended to `--out <file>` (the python runner uses the file: when rank 0 returns an error
 * from a rank-0-only section of the reader the workers are blocked in a receive, the harness then prints the
 * status and calls MPI_Abort(77), and output still in mpiexec's forwarding pipe could be lost).
 *
 *   part <np> <hex bytes | -> [tag]    rank 0 writes the bytes to a .meshb file, all ranks call the real
 *                                      ref_part_by_extension; one line:
 *                                         <status>                       when the call failed
 *                                         ok | <rank 0 dump> | <rank 1 dump> ...
 *   big <np> <ver> <B> <ncell> <seed> <pos>...   the same on a generated edge file (more records than the read chunk
 *                                      of ref_part_meshb_cell, see big_file below)
 *
 * rank dump:  n <old_n_global> <new_n_global> N g,part,x,y,z ... C grp:n0,n1,..:id ... G t,id,gref,node,p0,p1 ...
 *             B <cad hex | -> F grp:n0,..:id ...
 *   N sorted by global; C in the rank's local cell order (global node ids; id 0 for groups without id), taken just
 *   BEFORE ref_grid_inward_boundary_orientation (the call inside ref_part.c is interposed by a macro, the real
 *   function is called right after the dump); G sorted; F = the tri / qua groups AFTER the whole call, each cell
 *   written as the lexicographically smaller of (nodes, reversed nodes) - the orientation pass reverses a cell or
 *   leaves it alone.
 */
#include "h_proto.h"
#include <signal.h>
#include <unistd.h>

#include "ref_cell.h"
#include "ref_geom.h"
#include "ref_grid.h"
#include "ref_malloc.h"
#include "ref_mpi.h"
#include "ref_node.h"

#ifndef HAVE_MPI
#error "h_partmeshb.c is an MPI harness: build with mpicc -DHAVE_MPI"
#endif
#include "mpi.h"

/* ---- white box: ref_part.c with the call of the orientation pass interposed ---- */
static REF_STATUS h_orient_hook(REF_GRID ref_grid);
#define ref_grid_inward_boundary_orientation(g) h_orient_hook(g)
#include "ref_part.c"
#undef ref_grid_inward_boundary_orientation

static FILE *out;
static int me, np;
static REF_MPI ref_mpi;

/* ---- result string ---- */
static char *res;
static size_t res_n, res_cap;
static void r_reset(void) {
  if (!res) { res_cap = 256; res = (char *)malloc(res_cap); }
  res_n = 0;
  res[0] = 0;
}
static void r_raw(const char *s) {
  size_t l = strlen(s);
  if (res_n + l + 2 > res_cap) {
    res_cap = 2 * (res_n + l + 2) + 64;
    res = (char *)realloc(res, res_cap);
  }
  memcpy(res + res_n, s, l + 1);
  res_n += l;
}
static void r_put(const char *s) {
  if (res_n > 0) r_raw(" ");
  r_raw(s);
}
static void r_ll(long long v) { char b[32]; snprintf(b, sizeof b, "%lld", v); r_put(b); }
static void fmt_dbl(char *b, double d) {
  uint64_t u;
  memcpy(&u, &d, 8);
  snprintf(b, 32, "%016llx", (unsigned long long)u);
}

static void on_alarm(int sig) {
  (void)sig;
  _exit(97);
}

static void gather_print(const char *prefix) {
  int mylen = (int)res_n, *lens = NULL, *offs = NULL, i;
  char *all = NULL;
  if (0 == me) {
    lens = (int *)calloc((size_t)np + 1, sizeof(int));
    offs = (int *)calloc((size_t)np + 1, sizeof(int));
  }
  MPI_Gather(&mylen, 1, MPI_INT, lens, 1, MPI_INT, 0, MPI_COMM_WORLD);
  if (0 == me) {
    int tot = 0;
    for (i = 0; i < np; i++) { offs[i] = tot; tot += lens[i]; }
    all = (char *)calloc((size_t)tot + 1, 1);
  }
  MPI_Gatherv(res, mylen, MPI_CHAR, all, lens, offs, MPI_CHAR, 0, MPI_COMM_WORLD);
  if (0 == me) {
    fputs(prefix, out);
    for (i = 0; i < np; i++) {
      fputs(" | ", out);
      fwrite(all + offs[i], 1, (size_t)lens[i], out);
    }
    fputc('\n', out);
    fflush(out);
    free(all);
    free(lens);
    free(offs);
  }
}

/* ---- dumps ---- */
typedef struct { long long g; int part; double x[3]; } NodeRec;
static int cmp_node(const void *a, const void *b) {
  const NodeRec *p = (const NodeRec *)a, *q = (const NodeRec *)b;
  return (p->g > q->g) - (p->g < q->g);
}
typedef struct { int t, id, gref; long long g; double p[2]; } GeomRecH;
static int cmp_geom(const void *a, const void *b) {
  const GeomRecH *p = (const GeomRecH *)a, *q = (const GeomRecH *)b;
  if (p->t != q->t) return (p->t > q->t) - (p->t < q->t);
  if (p->id != q->id) return (p->id > q->id) - (p->id < q->id);
  return (p->g > q->g) - (p->g < q->g);
}

static char *pre_dump;

/* state of this rank into `res` */
static void dump_pre(REF_GRID ref_grid) {
  REF_NODE ref_node = ref_grid_node(ref_grid);
  REF_GEOM ref_geom = ref_grid_geom(ref_grid);
  REF_CELL ref_cell;
  REF_INT node, group, cell, nodes[REF_CELL_MAX_SIZE_PER], i, geom, k, n;
  char b[96], hb[32];
  NodeRec *nr;
  GeomRecH *gr;
  r_reset();
  r_put("n");
  r_ll((long long)ref_node->old_n_global);
  r_ll((long long)ref_node->new_n_global);
  r_put("N");
  n = ref_node_n(ref_node);
  nr = (NodeRec *)calloc((size_t)n + 1, sizeof(NodeRec));
  k = 0;
  each_ref_node_valid_node(ref_node, node) {
    nr[k].g = (long long)ref_node_global(ref_node, node);
    nr[k].part = ref_node_part(ref_node, node);
    for (i = 0; i < 3; i++) nr[k].x[i] = ref_node_xyz(ref_node, i, node);
    k++;
  }
  qsort(nr, (size_t)k, sizeof(NodeRec), cmp_node);
  for (i = 0; i < k; i++) {
    int j;
    snprintf(b, sizeof b, "%lld,%d", nr[i].g, nr[i].part);
    r_put(b);
    for (j = 0; j < 3; j++) {
      fmt_dbl(hb, nr[i].x[j]);
      r_raw(",");
      r_raw(hb);
    }
  }
  free(nr);
  r_put("C");
  each_ref_grid_all_ref_cell(ref_grid, group, ref_cell) {
    each_ref_cell_valid_cell_with_nodes(ref_cell, cell, nodes) {
      snprintf(b, sizeof b, "%d:", group);
      r_put(b);
      for (i = 0; i < ref_cell_node_per(ref_cell); i++) {
        snprintf(b, sizeof b, "%s%lld", i ? "," : "", (long long)ref_node_global(ref_node, nodes[i]));
        r_raw(b);
      }
      snprintf(b, sizeof b, ":%d", ref_cell_last_node_is_an_id(ref_cell) ? nodes[ref_cell_node_per(ref_cell)] : 0);
      r_raw(b);
    }
  }
  r_put("G");
  gr = (GeomRecH *)calloc((size_t)ref_geom_n(ref_geom) + 1, sizeof(GeomRecH));
  k = 0;
  each_ref_geom(ref_geom, geom) {
    gr[k].t = ref_geom_type(ref_geom, geom);
    gr[k].id = ref_geom_id(ref_geom, geom);
    gr[k].gref = ref_geom_gref(ref_geom, geom);
    gr[k].g = (long long)ref_node_global(ref_node, ref_geom_node(ref_geom, geom));
    gr[k].p[0] = ref_geom_param(ref_geom, 0, geom);
    gr[k].p[1] = ref_geom_param(ref_geom, 1, geom);
    k++;
  }
  qsort(gr, (size_t)k, sizeof(GeomRecH), cmp_geom);
  for (i = 0; i < k; i++) {
    snprintf(b, sizeof b, "%d,%d,%d,%lld,", gr[i].t, gr[i].id, gr[i].gref, gr[i].g);
    r_put(b);
    fmt_dbl(hb, gr[i].p[0]);
    r_raw(hb);
    r_raw(",");
    fmt_dbl(hb, gr[i].p[1]);
    r_raw(hb);
  }
  free(gr);
  r_put("B");
  if (0 == ref_geom_cad_data_size(ref_geom) || NULL == ref_geom_cad_data(ref_geom)) {
    r_put("-");
  } else {
    size_t q;
    r_raw(" ");
    for (q = 0; q < (size_t)ref_geom_cad_data_size(ref_geom); q++) {
      snprintf(b, sizeof b, "%02x", (unsigned)(unsigned char)ref_geom_cad_data(ref_geom)[q]);
      r_raw(b);
    }
  }
}

static REF_STATUS h_orient_hook(REF_GRID ref_grid) {
  dump_pre(ref_grid);
  free(pre_dump);
  pre_dump = strdup(res);
  return ref_grid_inward_boundary_orientation(ref_grid);
}

/* the tri and qua groups after the whole call, reversal-canonical */
static void dump_final(REF_GRID ref_grid) {
  REF_NODE ref_node = ref_grid_node(ref_grid);
  REF_CELL ref_cell;
  REF_INT group, cell, nodes[REF_CELL_MAX_SIZE_PER], i, np_;
  char b[96];
  r_put("F");
  each_ref_grid_all_ref_cell(ref_grid, group, ref_cell) {
    if (REF_CELL_TRI != ref_cell_type(ref_cell) && REF_CELL_QUA != ref_cell_type(ref_cell)) continue;
    np_ = ref_cell_node_per(ref_cell);
    each_ref_cell_valid_cell_with_nodes(ref_cell, cell, nodes) {
      long long f[8], r[8];
      int rev = 0;
      for (i = 0; i < np_; i++) f[i] = (long long)ref_node_global(ref_node, nodes[i]);
      for (i = 0; i < np_; i++) r[i] = f[np_ - 1 - i];
      for (i = 0; i < np_; i++) {
        if (r[i] < f[i]) { rev = 1; break; }
        if (r[i] > f[i]) break;
      }
      snprintf(b, sizeof b, "%d:", group);
      r_put(b);
      for (i = 0; i < np_; i++) {
        snprintf(b, sizeof b, "%s%lld", i ? "," : "", rev ? r[i] : f[i]);
        r_raw(b);
      }
      snprintf(b, sizeof b, ":%d", nodes[np_]);
      r_raw(b);
    }
  }
}

static int is_nat_tok(const char *s) {
  if (!*s || strlen(s) > 9) return 0;
  for (; *s; s++) if (*s < '0' || *s > '9') return 0;
  return 1;
}

static int hexval(int c) {
  if (c >= '0' && c <= '9') return c - '0';
  if (c >= 'a' && c <= 'f') return c - 'a' + 10;
  return -1;
}

static char path[256];

/* all ranks: read `path` with the real reader, print the line */
static void run_read(void) {
  REF_GRID ref_grid = NULL;
  REF_STATUS st;
  int ist, worst = 0;
  free(pre_dump);
  pre_dump = NULL;
  MPI_Barrier(MPI_COMM_WORLD);
  st = ref_part_by_extension(&ref_grid, ref_mpi, path);
  if (np > 1 && 0 == me && REF_SUCCESS != st) {
    /* the workers are (in general) blocked inside the reader: report and end the job */
    fprintf(out, "%s%s\n", pre_dump ? "orient-" : "", h_status((int)st));
    fflush(out);
    fsync(fileno(out));
    MPI_Abort(MPI_COMM_WORLD, 77);
  }
  ist = (int)st;
  MPI_Allreduce(&ist, &worst, 1, MPI_INT, MPI_MAX, MPI_COMM_WORLD);
  if (0 != worst) {
    int reached = pre_dump ? 1 : 0, all_reached = 0;
    MPI_Allreduce(&reached, &all_reached, 1, MPI_INT, MPI_MIN, MPI_COMM_WORLD);
    /* `orient-`: the reader itself was done on every rank, ref_grid_inward_boundary_orientation failed */
    if (0 == me) { fprintf(out, "%s%s\n", all_reached ? "orient-" : "", h_status(worst)); fflush(out); }
  } else {
    r_reset();
    r_put(pre_dump ? pre_dump : "no-pre-dump");
    dump_final(ref_grid);
    gather_print("ok");
  }
  /* the grid of a failed call is not freed by the reader either */
  if (REF_SUCCESS == st && ref_grid) ref_grid_free(ref_grid);
}

static int op_part(void) {
  int bad = 0;
  if ((h_nw != 3 && h_nw != 4) || !is_nat_tok(h_w[1]) || h_i(h_w[1]) != np) return 0; /* 4th word: a tag for the oracle */
  if (0 == me) {
    const char *h = h_w[2];
    size_t l = strlen(h), i;
    FILE *f;
    if (0 == strcmp(h, "-")) l = 0;
    if (l % 2) bad = 1;
    for (i = 0; !bad && i < l; i++) if (hexval(h[i]) < 0) bad = 1;
    if (!bad) {
      f = fopen(path, "wb");
      if (!f) bad = 1;
      else {
        for (i = 0; i + 1 < l; i += 2) fputc(16 * hexval(h[i]) + hexval(h[i + 1]), f);
        fclose(f);
      }
    }
  }
  MPI_Bcast(&bad, 1, MPI_INT, 0, MPI_COMM_WORLD);
  if (bad) return 0;
  run_read();
  return 1;
}

/* generated edge file: dim 3, nnode = B + M vertices (vertex k at (k/2, k/4, -k)), ncell edge records:
   record i is the marker edge (B+j, (7j) mod B) id 100+j when i = pos[j], else the background edge
   (min(a,b), max(a,b)) id 1 + (a'B + b') mod 7 with a,b drawn from an LCG over the B background vertices
   (so every repetition of a background edge is the identical record) */
#define BIG_MAXM 64
static int op_big(void) {
  long long ver, B, ncell, seed, pos[BIG_MAXM];
  int M, k, bad = 0;
  if (h_nw < 6 || h_nw > 6 + BIG_MAXM) return 0;
  for (k = 1; k < h_nw; k++) if (!is_nat_tok(h_w[k])) return 0;
  if (h_i(h_w[1]) != np) return 0;
  ver = h_i(h_w[2]);
  B = h_i(h_w[3]);
  ncell = h_i(h_w[4]);
  seed = h_i(h_w[5]);
  M = h_nw - 6;
  if (ver < 2 || ver > 4 || B < 2 || B > 1000 || ncell < 1 || ncell > 3000000) return 0;
  for (k = 0; k < M; k++) {
    pos[k] = h_i(h_w[6 + k]);
    if (pos[k] >= ncell || (k > 0 && pos[k] <= pos[k - 1])) return 0;
  }
  if (0 == me) {
    FILE *f = fopen(path, "wb");
    if (!f) bad = 1;
    else {
      int isz = ver >= 4 ? 8 : 4, psz = ver >= 3 ? 8 : 4;
      long long nnode = B + M, i, at;
      unsigned long long x = (unsigned long long)seed & 0x7fffffffULL;
      int j = 0, one = 1, v = (int)ver, kw;
#define PUT_INT(val) { if (isz == 8) { long long q_ = (long long)(val); fwrite(&q_, 8, 1, f); } \
                       else { int q_ = (int)(val); fwrite(&q_, 4, 1, f); } }
#define PUT_POS(val) { if (psz == 8) { long long q_ = (long long)(val); fwrite(&q_, 8, 1, f); } \
                       else { int q_ = (int)(val); fwrite(&q_, 4, 1, f); } }
      fwrite(&one, 4, 1, f);
      fwrite(&v, 4, 1, f);
      at = 8;
      kw = 3; fwrite(&kw, 4, 1, f);
      at += 4 + psz + 4;
      PUT_POS(at);
      kw = 3; fwrite(&kw, 4, 1, f); /* the dimension */
      kw = 4; fwrite(&kw, 4, 1, f);
      at += 4 + psz + isz + nnode * (24 + isz);
      PUT_POS(at);
      PUT_INT(nnode);
      for (i = 0; i < nnode; i++) {
        double c[3];
        c[0] = (double)i * 0.5;
        c[1] = (double)i * 0.25;
        c[2] = -(double)i;
        fwrite(c, 8, 3, f);
        PUT_INT(1);
      }
      kw = 5; fwrite(&kw, 4, 1, f);
      at += 4 + psz + isz + ncell * 3 * isz;
      PUT_POS(at);
      PUT_INT(ncell);
      for (i = 0; i < ncell; i++) {
        long long a, b, id;
        if (j < M && pos[j] == i) {
          a = B + j;
          b = (7LL * j) % B;
          id = 100 + j;
          j++;
        } else {
          long long a0, b0;
          x = (x * 1103515245ULL + 12345ULL) & 0x7fffffffULL;
          a0 = (long long)((x >> 8) % (unsigned long long)B);
          b0 = (long long)((x >> 16) % (unsigned long long)B);
          if (a0 == b0) b0 = (a0 + 1) % B;
          a = a0 < b0 ? a0 : b0;
          b = a0 < b0 ? b0 : a0;
          id = 1 + (a * B + b) % 7;
        }
        PUT_INT(a + 1);
        PUT_INT(b + 1);
        PUT_INT(id);
      }
      kw = 54; fwrite(&kw, 4, 1, f);
      PUT_POS(0);
      fclose(f);
    }
  }
  MPI_Bcast(&bad, 1, MPI_INT, 0, MPI_COMM_WORLD);
  if (bad) return 0;
  run_read();
  return 1;
}

static void tokenise(void) {
  char *p;
  h_nw = 0;
  for (p = strtok(h_line, " \t\r\n"); p && h_nw < H_MAXW; p = strtok(NULL, " \t\r\n")) h_w[h_nw++] = p;
}

int main(int argc, char *argv[]) {
  int fd, a;
  FILE *in = stdin;
  const char *opath = NULL, *outpath = NULL;
  MPI_Init(&argc, &argv);
  if (REF_SUCCESS != ref_mpi_create(&ref_mpi)) return 3;
  me = ref_mpi_rank(ref_mpi);
  np = ref_mpi_n(ref_mpi);
  for (a = 1; a + 1 < argc; a += 2) {
    if (0 == strcmp(argv[a], "--ops")) opath = argv[a + 1];
    if (0 == strcmp(argv[a], "--out")) outpath = argv[a + 1];
  }
  if (opath && 0 == me) {
    in = fopen(opath, "r");
    if (!in) return 4;
  }
  if (outpath && 0 == me) {
    out = fopen(outpath, "a");
    if (!out) return 4;
  } else {
    fd = dup(1);
    out = fdopen(fd, "w");
  }
  if (!freopen("/dev/null", "w", stdout)) return 3;
  snprintf(path, sizeof path, "pm_%d.meshb", 0 == me ? (int)getpid() : 0);
  MPI_Bcast(path, (int)sizeof path, MPI_CHAR, 0, MPI_COMM_WORLD);
  signal(SIGALRM, on_alarm);
  for (;;) {
    int len = -1, ok;
    const char *op;
    if (0 == me) {
      for (;;) {
        char *p;
        if (!fgets(h_line, sizeof(h_line), in)) { len = -1; break; }
        p = h_line;
        while (*p == ' ' || *p == '\t') p++;
        if (*p == '#' || *p == '\n' || *p == '\r' || *p == 0) continue;
        len = (int)strlen(h_line);
        break;
      }
    }
    MPI_Bcast(&len, 1, MPI_INT, 0, MPI_COMM_WORLD);
    if (len < 0) break;
    MPI_Bcast(h_line, len + 1, MPI_CHAR, 0, MPI_COMM_WORLD);
    tokenise();
    if (h_nw == 0) continue;
    op = h_w[0];
    alarm(900);
    if (0 == strcmp(op, "part")) ok = op_part();
    else if (0 == strcmp(op, "big")) ok = op_big();
    else ok = 0;
    alarm(0);
    if (!ok && 0 == me) { fputs("bad-op\n", out); fflush(out); }
  }
  if (0 == me) remove(path);
  fclose(out);
  ref_mpi_free(ref_mpi);
  MPI_Finalize();
  return 0;
}
