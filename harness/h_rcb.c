/* harness `rcb` (MPI): the native load balancer of ref_migrate.c.
 *
 * White-box: ref_migrate.c is #included (static ref_migrate_new_part / ref_migrate_native_rcb_part /
 * ref_migrate_native_rcb_direction); list whitebox=('ref_migrate',) in the Stream.
 *
 * The libc `rand()` is replaced by the definition below: the values come from the op line, so the random
 * rotation of ref_migrate_native_rcb_part is an input of the test (refine never calls srand()).
 *
 * Only rank 0 reads the op lines (`--ops <file>` or stdin); every line is broadcast.  One op line carries the
 * data of ALL ranks:   op np header... | rank-0 group | rank-1 group | ...
 *
 *   ratio <n>                                        (no np, no groups)  ref_migrate_split_ratio
 *   splitdir np t0 .. t8 | x,y,z x,y,z ... | ...     ref_migrate_split_dir (transform column-major, hex doubles)
 *   newpart np method npart seed twod kind nr r1..rnr | glob,part,x,y,z ... | ...
 *        ref_migrate_new_part(ref_grid, npart, node_part) then ref_node_ghost_int(ref_node, node_part, 1)
 *        per rank: `<status> <seed after> <rand() calls> p p p ...` (node_part of every stored vertex, slot order)
 *   balance np method full nglobal seed twod kind nr r1..rnr | glob,part,age,x,y,z ... | ...
 *        the real ref_migrate_to_balance on a grid without cells
 *        per rank: `<status> g:p g:p ...` (stored vertices afterwards, by global id)
 * `kind` is a generator label (ignored here).  Malformed / inconsistent worlds print `bad-op`.
 */
#include "h_proto.h"
#include <signal.h>
#include <unistd.h>

/* ---- the rand() stream (must precede ref_migrate.c only logically: same symbol) ---- */
#define MAXRAND 16
static int rand_q[MAXRAND], rand_n, rand_used;
int rand(void) {
  int v = 0;
  if (rand_used < rand_n) v = rand_q[rand_used];
  rand_used++;
  return v;
}

#include "ref_migrate.c"

#ifndef HAVE_MPI
#error "h_rcb.c is an MPI harness: build with mpicc -DHAVE_MPI"
#endif
#include "mpi.h"

#define BAD 1
#define SERIAL 3

static FILE *out;
static int me, np;
static REF_MPI ref_mpi;

/* ---- result string ---- */
static char *res;
static size_t res_n, res_cap;
static void r_reset(void) {
  res_n = 0;
  if (!res) { res_cap = 256; res = (char *)malloc(res_cap); }
  res[0] = 0;
}
static void r_raw(const char *s) {
  size_t l = strlen(s);
  if (res_n + l + 2 > res_cap) {
    res_cap = 2 * (res_n + l + 2) + 64;
    res = (char *)realloc(res, res_cap);
  }
  memcpy(res + res_n, s, l + 1);
  res_n += l;
}
static void r_put(const char *s) {
  if (res_n > 0) r_raw(" ");
  r_raw(s);
}
static void r_ll(long long v) { char b[32]; snprintf(b, sizeof b, "%lld", v); r_put(b); }
static void r_dbl(double d) {
  char b[32];
  uint64_t u;
  if (d != d) { r_put("nan"); return; }
  memcpy(&u, &d, 8);
  snprintf(b, sizeof b, "%016llx", (unsigned long long)u);
  r_put(b);
}
static int is_int_tok(const char *s) {
  if (*s == '-') s++;
  if (!*s) return 0;
  for (; *s; s++) if (*s < '0' || *s > '9') return 0;
  return 1;
}
static int is_nat_tok(const char *s) {
  if (!*s) return 0;
  for (; *s; s++) if (*s < '0' || *s > '9') return 0;
  return 1;
}
static int is_hex16(const char *s) {
  int i;
  for (i = 0; s[i]; i++)
    if (!((s[i] >= '0' && s[i] <= '9') || (s[i] >= 'a' && s[i] <= 'f') || (s[i] >= 'A' && s[i] <= 'F'))) return 0;
  return i == 16;
}
static void *zalloc(size_t n, size_t sz) { return calloc(n + 1, sz); }

/* ---- groups ---- */
#define MAXG 64
static int g_lo[MAXG], g_hi[MAXG], ng, hdr_end;
static int split_groups(void) {
  int i;
  ng = 0;
  hdr_end = h_nw;
  for (i = 2; i < h_nw; i++) {
    if (0 == strcmp(h_w[i], "|")) {
      if (ng == 0) hdr_end = i;
      else g_hi[ng - 1] = i;
      if (ng >= MAXG) return 0;
      g_lo[ng] = i + 1;
      g_hi[ng] = h_nw;
      ng++;
    }
  }
  return 1;
}
#define GLEN(g) (g_hi[g] - g_lo[g])
#define GW(g, k) (h_w[g_lo[g] + (k)])
#define NHDR (hdr_end - 2)
#define HDR(k) (h_w[2 + (k)])

static void on_alarm(int sig) {
  (void)sig;
  _exit(97);
}

static int split_commas(char *t, char **f, int maxf) {
  int n = 0;
  char *p = t;
  f[n++] = p;
  for (; *p; p++)
    if (*p == ',') {
      *p = 0;
      if (n >= maxf) return maxf + 1;
      f[n++] = p + 1;
    }
  return n;
}

#define LIM 1000000000LL

/* ------------------------------------------------------------------ ratio */
static int op_ratio(void) {
  REF_DBL ratio = -1.0;
  REF_STATUS st;
  if (h_nw != 2 || !is_int_tok(h_w[1]) || strlen(h_w[1]) > 9) return BAD;
  st = ref_migrate_split_ratio((REF_INT)h_i(h_w[1]), &ratio);
  r_put(h_status((int)st));
  r_dbl(ratio);
  return SERIAL;
}

/* ------------------------------------------------------------------ splitdir */
static int op_splitdir(void) {
  REF_DBL t[9], *xyz;
  REF_INT dir = -7;
  REF_STATUS st;
  int g, i, k, n;
  char *f[8];
  if (NHDR != 9) return BAD;
  for (i = 0; i < 9; i++) {
    if (!is_hex16(HDR(i))) return BAD;
    t[i] = h_f(HDR(i));
  }
  /* validate all groups on all ranks (tokens are split in place: every rank does the same) */
  xyz = NULL;
  n = 0;
  for (g = 0; g < np; g++) {
    REF_DBL *mine = NULL;
    if (g == me) { mine = (REF_DBL *)zalloc((size_t)3 * (size_t)GLEN(g), sizeof(REF_DBL)); xyz = mine; n = GLEN(g); }
    for (i = 0; i < GLEN(g); i++) {
      if (3 != split_commas(GW(g, i), f, 8)) { free(xyz); return BAD; }
      for (k = 0; k < 3; k++) {
        if (!is_hex16(f[k])) { free(xyz); return BAD; }
        if (mine) mine[k + 3 * i] = h_f(f[k]);
      }
    }
  }
  st = ref_migrate_split_dir(ref_mpi, n, xyz, t, &dir);
  r_put(h_status((int)st));
  r_ll(dir);
  free(xyz);
  return 0;
}

/* ------------------------------------------------------------------ worlds of vertices */
typedef struct {
  int n;
  long long *glob, *part, *age;
  double *xyz;
} RANKW;

static void free_world(RANKW *w) {
  int g;
  if (!w) return;
  for (g = 0; g < np; g++) {
    free(w[g].glob);
    free(w[g].part);
    free(w[g].age);
    free(w[g].xyz);
  }
  free(w);
}

static int cmp_ll(const void *a, const void *b) {
  long long x = *(const long long *)a, y = *(const long long *)b;
  return x < y ? -1 : (x > y ? 1 : 0);
}

/* parse `glob,part[,age],x,y,z` tokens of every rank; check: ids in range, part in [0,np), globals distinct on a
   rank, every global owned by at most one rank, every ghost stored as owned by the rank its part names */
static RANKW *parse_world(int with_age) {
  RANKW *w = (RANKW *)zalloc((size_t)np, sizeof(RANKW));
  int g, i, k, rc = 0, nf = with_age ? 6 : 5;
  long long *owned = NULL, nowned = 0, total = 0;
  char *f[10];
  for (g = 0; g < np; g++) total += GLEN(g);
  owned = (long long *)zalloc((size_t)total, sizeof(long long));
  for (g = 0; g < np && !rc; g++) {
    w[g].n = GLEN(g);
    w[g].glob = (long long *)zalloc((size_t)w[g].n, sizeof(long long));
    w[g].part = (long long *)zalloc((size_t)w[g].n, sizeof(long long));
    w[g].age = (long long *)zalloc((size_t)w[g].n, sizeof(long long));
    w[g].xyz = (double *)zalloc((size_t)3 * (size_t)w[g].n, sizeof(double));
    for (i = 0; i < w[g].n && !rc; i++) {
      if (nf != split_commas(GW(g, i), f, 9)) { rc = BAD; break; }
      if (!is_nat_tok(f[0]) || strlen(f[0]) > 9 || !is_nat_tok(f[1]) || strlen(f[1]) > 6) { rc = BAD; break; }
      w[g].glob[i] = h_i(f[0]);
      w[g].part[i] = h_i(f[1]);
      if (w[g].glob[i] >= LIM || w[g].part[i] >= np) { rc = BAD; break; }
      if (with_age) {
        if (!is_nat_tok(f[2]) || strlen(f[2]) > 6) { rc = BAD; break; }
        w[g].age[i] = h_i(f[2]);
      }
      for (k = 0; k < 3; k++) {
        const char *t = f[nf - 3 + k];
        if (!is_hex16(t)) { rc = BAD; break; }
        w[g].xyz[k + 3 * i] = h_f(t);
      }
      if (w[g].part[i] == g) owned[nowned++] = w[g].glob[i];
    }
  }
  for (g = 0; g < np && !rc; g++) {
    long long *tmp = (long long *)zalloc((size_t)w[g].n, sizeof(long long));
    memcpy(tmp, w[g].glob, (size_t)w[g].n * sizeof(long long));
    qsort(tmp, (size_t)w[g].n, sizeof(long long), cmp_ll);
    for (i = 1; i < w[g].n; i++)
      if (tmp[i] == tmp[i - 1]) rc = BAD;
    free(tmp);
  }
  if (!rc) {
    qsort(owned, (size_t)nowned, sizeof(long long), cmp_ll);
    for (i = 1; i < nowned; i++)
      if (owned[i] == owned[i - 1]) rc = BAD;
    for (g = 0; g < np && !rc; g++)
      for (i = 0; i < w[g].n && !rc; i++)
        if (w[g].part[i] != g) {
          long long key = w[g].glob[i];
          if (!bsearch(&key, owned, (size_t)nowned, sizeof(long long), cmp_ll)) { rc = BAD; break; }
          { /* owned by exactly the rank named */
            int o = (int)w[g].part[i], j, found = 0;
            for (j = 0; j < w[o].n; j++)
              if (w[o].glob[j] == key && w[o].part[j] == o) found = 1;
            if (!found) rc = BAD;
          }
        }
  }
  free(owned);
  if (rc) { free_world(w); return NULL; }
  return w;
}

static int parse_rands(int first) {
  long long nr;
  int i;
  if (NHDR < first + 1 || !is_nat_tok(HDR(first)) || strlen(HDR(first)) > 3) return 0;
  nr = h_i(HDR(first));
  if (nr > MAXRAND || NHDR != first + 1 + nr) return 0;
  for (i = 0; i < nr; i++) {
    if (!is_nat_tok(HDR(first + 1 + i)) || strlen(HDR(first + 1 + i)) > 10 || h_i(HDR(first + 1 + i)) > 2147483647LL)
      return 0;
    rand_q[i] = (int)h_i(HDR(first + 1 + i));
  }
  rand_n = (int)nr;
  rand_used = 0;
  return 1;
}

static REF_STATUS build_grid(REF_GRID *ref_grid_ptr, RANKW *w, int twod, int method, long long seed, int *bad_add) {
  REF_GRID ref_grid;
  REF_NODE ref_node;
  REF_INT node;
  int i, k;
  RSS(ref_grid_create(ref_grid_ptr, ref_mpi), "grid");
  ref_grid = *ref_grid_ptr;
  ref_node = ref_grid_node(ref_grid);
  for (i = 0; i < w[me].n; i++) {
    if (REF_SUCCESS != ref_node_add(ref_node, (REF_GLOB)w[me].glob[i], &node) || node != i) { *bad_add = 1; break; }
    ref_node_part(ref_node, node) = (REF_INT)w[me].part[i];
    ref_node_age(ref_node, node) = (REF_INT)w[me].age[i];
    for (k = 0; k < 3; k++) ref_node_xyz(ref_node, k, node) = w[me].xyz[k + 3 * i];
  }
  ref_grid_twod(ref_grid) = twod ? REF_TRUE : REF_FALSE;
  ref_grid_partitioner(ref_grid) = (REF_MIGRATE_PARTIONER)method;
  ref_grid_partitioner_seed(ref_grid) = (REF_INT)seed;
  return REF_SUCCESS;
}

/* ------------------------------------------------------------------ newpart */
static int op_newpart(void) {
  long long method, npart, seed, twod;
  RANKW *w;
  REF_GRID ref_grid = NULL;
  REF_STATUS st;
  REF_INT *node_part, node;
  int bad_add = 0, i;
  if (NHDR < 6) return BAD;
  if (!is_nat_tok(HDR(0)) || strlen(HDR(0)) > 2 || !is_int_tok(HDR(1)) || strlen(HDR(1)) > 6 ||
      !is_nat_tok(HDR(2)) || strlen(HDR(2)) > 10 || !is_nat_tok(HDR(3)) || strlen(HDR(3)) > 1)
    return BAD;
  method = h_i(HDR(0));
  npart = h_i(HDR(1));
  seed = h_i(HDR(2));
  twod = h_i(HDR(3));
  if (twod > 1 || npart > np || seed > 2000000000LL) return BAD; /* precondition of the recursion: npart <= ref_mpi_n */
  if (!parse_rands(5)) return BAD;
  w = parse_world(0);
  if (!w) return BAD;
  st = build_grid(&ref_grid, w, (int)twod, (int)method, seed, &bad_add);
  if (REF_SUCCESS != st || bad_add) {
    r_put("harness-build-failed");
    if (ref_grid) ref_grid_free(ref_grid);
    free_world(w);
    return 0;
  }
  node_part = (REF_INT *)zalloc((size_t)ref_node_max(ref_grid_node(ref_grid)), sizeof(REF_INT));
  for (node = 0; node < ref_node_max(ref_grid_node(ref_grid)); node++) node_part[node] = REF_EMPTY;
  st = ref_migrate_new_part(ref_grid, (REF_INT)npart, node_part);
  if (REF_SUCCESS == st) st = ref_node_ghost_int(ref_grid_node(ref_grid), node_part, 1);
  r_put(h_status((int)st));
  r_ll(ref_grid_partitioner_seed(ref_grid));
  r_ll(rand_used);
  if (REF_SUCCESS == st)
    for (i = 0; i < w[me].n; i++) r_ll(node_part[i]);
  free(node_part);
  ref_grid_free(ref_grid);
  free_world(w);
  return 0;
}

/* ------------------------------------------------------------------ balance */
typedef struct {
  long long g;
  int p;
} GP;
static int cmp_gp(const void *a, const void *b) {
  long long x = ((const GP *)a)->g, y = ((const GP *)b)->g;
  return x < y ? -1 : (x > y ? 1 : 0);
}

static int op_balance(void) {
  long long method, full, nglobal, seed, twod;
  RANKW *w;
  REF_GRID ref_grid = NULL;
  REF_NODE ref_node;
  REF_STATUS st;
  REF_INT node;
  int bad_add = 0, i, n, g;
  GP *gp;
  char b[64];
  if (NHDR < 7) return BAD;
  if (!is_nat_tok(HDR(0)) || strlen(HDR(0)) > 2 || !is_nat_tok(HDR(1)) || strlen(HDR(1)) > 1 ||
      !is_nat_tok(HDR(2)) || strlen(HDR(2)) > 9 || !is_nat_tok(HDR(3)) || strlen(HDR(3)) > 10 ||
      !is_nat_tok(HDR(4)) || strlen(HDR(4)) > 1)
    return BAD;
  method = h_i(HDR(0));
  full = h_i(HDR(1));
  nglobal = h_i(HDR(2));
  seed = h_i(HDR(3));
  twod = h_i(HDR(4));
  if (twod > 1 || full > 1 || method > 5 || seed > 2000000000LL) return BAD;
  if (!parse_rands(6)) return BAD;
  w = parse_world(1);
  if (!w) return BAD;
  for (g = 0; g < np; g++)
    for (i = 0; i < w[g].n; i++)
      if (w[g].glob[i] >= nglobal) { free_world(w); return BAD; }
  st = build_grid(&ref_grid, w, (int)twod, (int)method, seed, &bad_add);
  if (REF_SUCCESS != st || bad_add) {
    r_put("harness-build-failed");
    if (ref_grid) ref_grid_free(ref_grid);
    free_world(w);
    return 0;
  }
  ref_node = ref_grid_node(ref_grid);
  ref_grid_partitioner_full(ref_grid) = full ? REF_TRUE : REF_FALSE;
  ref_node_initialize_n_global(ref_node, (REF_GLOB)nglobal);
  st = ref_migrate_to_balance(ref_grid);
  r_put(h_status((int)st));
  if (REF_SUCCESS == st) {
    gp = (GP *)zalloc((size_t)ref_node_n(ref_node), sizeof(GP));
    n = 0;
    each_ref_node_valid_node(ref_node, node) {
      gp[n].g = (long long)ref_node_global(ref_node, node);
      gp[n].p = ref_node_part(ref_node, node);
      n++;
    }
    qsort(gp, (size_t)n, sizeof(GP), cmp_gp);
    for (i = 0; i < n; i++) {
      snprintf(b, sizeof b, "%lld:%d", gp[i].g, gp[i].p);
      r_put(b);
    }
    free(gp);
  }
  ref_grid_free(ref_grid);
  free_world(w);
  return 0;
}

/* ------------------------------------------------------------------ gather per-rank strings on rank 0 */
static void gather_print(void) {
  int mylen = (int)res_n, *lens = NULL, *offs = NULL, i;
  char *all = NULL;
  if (0 == me) {
    lens = (int *)zalloc((size_t)np, sizeof(int));
    offs = (int *)zalloc((size_t)np, sizeof(int));
  }
  MPI_Gather(&mylen, 1, MPI_INT, lens, 1, MPI_INT, 0, MPI_COMM_WORLD);
  if (0 == me) {
    int tot = 0;
    for (i = 0; i < np; i++) { offs[i] = tot; tot += lens[i]; }
    all = (char *)zalloc((size_t)tot, 1);
  }
  MPI_Gatherv(res, mylen, MPI_CHAR, all, lens, offs, MPI_CHAR, 0, MPI_COMM_WORLD);
  if (0 == me) {
    for (i = 0; i < np; i++) {
      if (i) fputs(" | ", out);
      fwrite(all + offs[i], 1, (size_t)lens[i], out);
    }
    fputc('\n', out);
    fflush(out);
    free(all);
    free(lens);
    free(offs);
  }
}

static void tokenise(void) {
  char *p;
  h_nw = 0;
  for (p = strtok(h_line, " \t\r\n"); p && h_nw < H_MAXW; p = strtok(NULL, " \t\r\n")) h_w[h_nw++] = p;
}

int main(int argc, char *argv[]) {
  int fd;
  FILE *in = stdin;
  MPI_Init(&argc, &argv);
  if (REF_SUCCESS != ref_mpi_create(&ref_mpi)) return 3;
  me = ref_mpi_rank(ref_mpi);
  np = ref_mpi_n(ref_mpi);
  if (argc >= 3 && 0 == strcmp(argv[1], "--ops") && 0 == me) {
    in = fopen(argv[2], "r");
    if (!in) return 4;
  }
  fd = dup(1);
  out = fdopen(fd, "w");
  if (!freopen("/dev/null", "w", stdout)) return 3;
  signal(SIGALRM, on_alarm);
  for (;;) {
    int len = -1, rc;
    const char *op;
    if (0 == me) {
      for (;;) {
        char *p;
        if (!fgets(h_line, sizeof(h_line), in)) { len = -1; break; }
        p = h_line;
        while (*p == ' ' || *p == '\t') p++;
        if (*p == '#' || *p == '\n' || *p == '\r' || *p == 0) continue;
        len = (int)strlen(h_line);
        break;
      }
    }
    MPI_Bcast(&len, 1, MPI_INT, 0, MPI_COMM_WORLD);
    if (len < 0) break;
    MPI_Bcast(h_line, len + 1, MPI_CHAR, 0, MPI_COMM_WORLD);
    tokenise();
    if (h_nw == 0) continue;
    op = h_w[0];
    r_reset();
    alarm(15);
    if (0 == strcmp(op, "ratio")) rc = op_ratio();
    else if (h_nw < 2 || !is_nat_tok(h_w[1]) || strlen(h_w[1]) > 6 || h_i(h_w[1]) != np) rc = BAD;
    else if (!split_groups() || ng != np) rc = BAD;
    else if (0 == strcmp(op, "splitdir")) rc = op_splitdir();
    else if (0 == strcmp(op, "newpart")) rc = op_newpart();
    else if (0 == strcmp(op, "balance")) rc = op_balance();
    else rc = BAD;
    alarm(0);
    if (rc == BAD) {
      if (0 == me) { fputs("bad-op\n", out); fflush(out); }
      continue;
    }
    if (rc == SERIAL) {
      if (0 == me) { fprintf(out, "%s\n", res); fflush(out); }
      continue;
    }
    gather_print();
  }
  fclose(out);
  ref_mpi_free(ref_mpi);
  MPI_Finalize();
  return 0;
}
