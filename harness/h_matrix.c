/* harness `matrix`: the symmetric-matrix kernel of ref_matrix.c, called in-process.
   One op per line, arguments are doubles as 16 hex digits; prints `ok <hex doubles>` or the
   REF_STATUS name.  refine prints diagnostics to stdout on its error paths, so the protocol goes to
   a dup of the original stdout and refine's own stdout is sent to /dev/null. */
#include "h_proto.h"
#include <unistd.h>
#include "ref_matrix.h"
#include "ref_math.h"

static FILE *out;

static void put(REF_STATUS s, int n, const double *x) {
  int i;
  if (REF_SUCCESS != s) {
    fputs(h_status(s), out);
    fputc('\n', out);
    return;
  }
  fputs("ok", out);
  for (i = 0; i < n; i++) {
    fputc(' ', out);
    h_pf(out, x[i]);
  }
  fputc('\n', out);
}

int main(void) {
  int fd = dup(1);
  if (fd < 0) return 3;
  out = fdopen(fd, "w");
  if (!out) return 3;
  if (!freopen("/dev/null", "w", stdout)) return 3;
  while (h_next(stdin)) {
    const char *op = h_w[0];
    double a[32], r[32];
    int i, n = h_nw - 1;
    int bad = 0;
    if (n > 30) {
      fputs("bad-op\n", out);
      continue;
    }
    for (i = 0; i < 32; i++) a[i] = r[i] = 0.0;
    for (i = 0; i < n; i++) {
      if (strlen(h_w[i + 1]) != 16 || strspn(h_w[i + 1], "0123456789abcdefABCDEF") != 16) bad = 1;
      a[i] = h_f(h_w[i + 1]);
    }
    if (bad) {
      fputs("bad-op\n", out);
      continue;
    }
#define OP(name, nargs) (0 == strcmp(op, name) && n == (nargs))
    if (OP("diag_m", 6)) {
      put(ref_matrix_diag_m(a, r), 12, r);
    } else if (OP("diag_m2", 3)) {
      put(ref_matrix_diag_m2(a, r), 6, r);
    } else if (OP("descending_eig", 12)) {
      put(ref_matrix_descending_eig(a), 12, a);
    } else if (OP("descending_eig_twod", 12)) {
      put(ref_matrix_descending_eig_twod(a), 12, a);
    } else if (OP("form_m", 12)) {
      put(ref_matrix_form_m(a, r), 6, r);
    } else if (OP("form_m2", 6)) {
      put(ref_matrix_form_m2(a, r), 3, r);
    } else if (OP("jacob_m", 6)) {
      put(ref_matrix_jacob_m(a, r), 9, r);
    } else if (OP("inv_m", 6)) {
      put(ref_matrix_inv_m(a, r), 6, r);
    } else if (OP("inv_gen3", 9)) {
      put(ref_matrix_inv_gen(3, a, r), 9, r);
    } else if (OP("det_m", 6)) {
      put(ref_matrix_det_m(a, r), 1, r);
    } else if (OP("det_gen3", 9)) {
      put(ref_matrix_det_gen(3, a, r), 1, r);
    } else if (OP("det_m2", 3)) {
      put(ref_matrix_det_m2(a, r), 1, r);
    } else if (OP("log_m", 6)) {
      put(ref_matrix_log_m(a, r), 6, r);
    } else if (OP("exp_m", 6)) {
      put(ref_matrix_exp_m(a, r), 6, r);
    } else if (OP("sqrt_m", 6)) {
      put(ref_matrix_sqrt_m(a, r, r + 6), 12, r);
    } else if (OP("healthy_m", 6)) {
      put(ref_matrix_healthy_m(a), 0, r);
    } else if (OP("twod_m", 6)) {
      put(ref_matrix_twod_m(a), 6, a);
    } else if (OP("mult_m0m1m0", 12)) {
      put(ref_matrix_mult_m0m1m0(a, a + 6, r), 6, r);
    } else if (OP("mult_m", 12)) {
      put(ref_matrix_mult_m(a, a + 6, r), 9, r);
    } else if (OP("weight_m", 13)) {
      put(ref_matrix_weight_m(a, a + 6, a[12], r), 6, r);
    } else if (OP("intersect", 12)) {
      put(ref_matrix_intersect(a, a + 6, r), 6, r);
    } else if (OP("bound", 12)) {
      put(ref_matrix_bound(a, a + 6, r), 6, r);
    } else if (OP("vt_m_v", 9)) {
      r[0] = ref_matrix_vt_m_v(a, a + 6);
      put(REF_SUCCESS, 1, r);
    } else if (OP("sqrt_vt_m_v", 9)) {
      r[0] = ref_matrix_sqrt_vt_m_v(a, a + 6);
      put(REF_SUCCESS, 1, r);
    } else if (OP("vt_m_v_deriv", 9)) {
      put(ref_matrix_vt_m_v_deriv(a, a + 6, r, r + 1), 4, r);
    } else if (OP("sqrt_vt_m_v_deriv", 9)) {
      put(ref_matrix_sqrt_vt_m_v_deriv(a, a + 6, r, r + 1), 4, r);
    } else {
      fputs("bad-op\n", out);
    }
  }
  fflush(out);
  return 0;
}
